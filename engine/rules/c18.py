"""C18 - verbose payloads: encode/decode agreement and canonical text (structural clauses).

Decided: D2 every slice/index access to the payload in the argument iterator is dominated by a
length guard on the same end expression with no store to its variables in between (never reads
outside the payload); D1 the encoder's (type flag, TYLE, value bytes) rows agree with the decoder's
tyle -> length table, and length-prefixed rows write a 16-bit length where the decoder reads 16 bits.
Not decided: value/text round trip, canonical text, prefix property."""
import re
from cfg import CFG
from expr import ExprBuilder, show, walk
from facts import Operand, Place
import guards

LEVEL = 'proof'
EXPLANATION = ('Dominance-based guard check of every payload index site in DltMessageArgIterator::next; table extraction (constant folding on MIR) of the serializer rows and the decoder tyle switch.')
ASSUMPTIONS = [
    'decides structural clauses only: value round trip, text canonical form and the prefix property of truncated argument lists are NOT decided',
    'D1 compares tables (widths and type words), not values',
]
MANIFEST = {'text': 'proof (dominators + no intervening store) that every payload slice in the argument iterator is preceded by a length guard on the same bound; '
                    'agreement of the encoder width/type-word table with the decoder tyle->length table.'
                    " Added: every decoded string passes the CR/LF/TAB replacement; every value narrowed into the encoder's 16-bit length prefix is bounded by 65535 by the dominating guards."
                    ' Added: a single byte of an argument value is read only under len == 1, for BOOL, or for string/raw data - in the renderer and in every helper that receives the argument '
                    '(multi-byte numbers are decoded from the whole slice in the message byte order); the renderer never casts a float to an integer. Added: string text handed to the decoder is not delimited by a search (one trailing NUL only); in the raw-data branch the first-byte test is on the index of enumerate() over the whole raw value. Added: the separator between arguments is decided by the argument position (enumerate over the argument iterator). Added: the decode table of the renderer - every from_be/le_bytes row has the signedness of its type-info branch, the width of its length arm and the byte order of its is_big_endian edge; the argument separator is guarded by the position alone. Added: iterator and renderer dispatch on the type bits in a compatible order for all 256 combinations (shared with C03 B7).'}

ARGIT = 'adlt::dlt::DltMessageArgIterator'
SER = 'adlt::serde_verb_payload::ser_verb_payload::Serializer'
WIDTH = {'i8': 1, 'u8': 1, 'i16': 2, 'u16': 2, 'i32': 4, 'u32': 4, 'f32': 4, 'i64': 8, 'u64': 8, 'f64': 8, 'i128': 16, 'u128': 16}
INDEX_CALLS = ('std::ops::Index::index', 'std::ops::IndexMut::index_mut', 'core::slice::<impl [T]>::get_unchecked', 'core::slice::<impl [T]>::split_at',
               'core::slice::<impl [T]>::split_at_unchecked')


def run(F, chk):
    D2 = chk.rule('D2', 'every payload index/slice in the argument iterator is dominated by a length guard on the same bound (no store in between)')
    D1 = chk.rule('D1', 'encoder rows (type flag | TYLE, value bytes) agree with the decoder tyle->length table; length-prefixed rows write 16-bit lengths')
    nexts = [b for b in F.order if (b.impl_self or '').startswith(ARGIT) and b.impl_trait == 'std::iter::Iterator' and b.path.endswith('::next')]
    D2.floor('argument iterator next() (anchor: impl Iterator for DltMessageArgIterator)', len(nexts), 1)
    dec = {}
    for b in nexts:
        # private methods of the iterator that next() delegates to (next_non_verbose(), next_strg_or_rawd(..)) are held to the
        # same rule; the anchor count is taken over all of them
        group = [b]
        for blk in b.calls():
            H = F.get(blk.term.callee.resolved) if blk.term.callee.resolved else F.get(blk.term.callee.path)
            if H is not None and H.kind != 'closure' and H.path != b.path and (H.impl_self or '').startswith(ARGIT) and H not in group:
                group.append(H)
        total = sum(check_index_sites(x, D2) for x in group)
        D2.floor('payload index sites in ' + b.path, total, 5)
        dec = decoder_table(b)
    check_tables(F, dec, D1)
    D3 = chk.rule('D3', 'every string argument text pushed into the rendering passed through the CR/LF/TAB -> space replacement')
    check_string_sanitised(F, D3)
    D4 = chk.rule('D4', 'encoder: every value narrowed into / added within the 16-bit length prefix has an upper bound <= 65535 from the dominating guards')
    check_length_prefix(F, D4)
    D5 = chk.rule('D5', 'the argument renderer never casts a float to an integer (floats are rendered by the float formatter)')
    check_float_rendering(F, D5)
    D6 = chk.rule('D6', 'the renderer reads a single byte of an argument value only when the value is one byte long, a BOOL, or string/raw data (multi-byte numbers go through from_be/le_bytes as a whole)')
    check_single_byte_reads(F, D6)
    D7 = chk.rule('D7', 'string arguments: the text handed to the decoder is the raw value minus at most the one trailing NUL (no search for a NUL inside the string)')
    check_string_extent(F, D7)
    D8 = chk.rule('D8', 'raw data: the byte separator is decided by the position of the byte in the whole raw value (index of an enumerate() directly over payload_raw), so exactly every byte but the first is preceded by one space')
    check_rawd_separator(F, D8)
    D9 = chk.rule('D9', 'arguments are separated by one space decided by the position of the argument (index of enumerate() over the argument iterator), not by what has been rendered so far')
    check_arg_separator(F, D9)
    D11 = chk.rule('D11', 'the type dispatch of the argument iterator and of the renderer agree for all 256 combinations of the type bits: a renderer branch that reads a fixed byte is only reached for arguments to which the iterator gave that length (shared with C03 B7)')
    import c03
    c03.check_dispatch_agreement(F, D11)
    D10 = chk.rule('D10', 'integer and float arguments: every from_be/le_bytes in the renderer decodes to the type of its branch - unsigned under UINT, signed under SINT, float under FLOA - of exactly the width its length arm states, big-endian decode on the is_big_endian edge')
    check_numeric_decode_table(F, D10)


def vars_of(e):
    """place expressions mentioned in e"""
    out = set()
    for x in walk(e):
        if isinstance(x, tuple) and x and x[0] == 'place':
            out.add(x)
    return out


def bound_of(E, t):
    """(kind, end expression) of an index call / None"""
    args = t.args
    if len(args) < 2:
        return None
    a0 = args[0].ty or ''
    if not re.search(r'(Vec<u8>|\[u8\])', a0):
        return None
    e = E.operand(args[1])
    if isinstance(e, tuple) and e[0] == 'agg':
        nm = e[1]
        if nm.endswith('Range::Range'):
            return ('range', e[2][1], e[2][0])
        if nm.endswith('RangeFrom::RangeFrom'):
            return ('from', e[2][0], e[2][0])
        if nm.endswith('RangeTo::RangeTo'):
            return ('to', e[2][0], None)
        if nm.endswith('RangeInclusive::RangeInclusive') or 'RangeInclusive' in nm:
            return ('incl', e[2][1] if len(e[2]) > 1 else None, e[2][0])
        return ('other', None, None)
    return ('idx', e, e)


def guard_covers(cond, truth, base, kind, end):
    """does the known condition imply  end <= len(base)  (or < for a plain index)"""
    if truth is not True or not isinstance(cond, tuple) or cond[0] != 'bin':
        return False
    op, a, b = cond[1], cond[2], cond[3]

    def is_len(x):
        return isinstance(x, tuple) and x[0] == 'call' and x[1].endswith('::len') and strip(x[2][0]) == strip(base)
    if kind in ('range', 'to', 'from'):
        # need len >= end
        if is_len(a) and b == end and op in ('Ge', 'Gt'):
            return True
        if is_len(b) and a == end and op in ('Le', 'Lt'):
            return True
        # len > k implies len >= k for RangeFrom{k}
    if kind == 'idx':
        if is_len(a) and b == end and op == 'Gt':
            return True
        if is_len(b) and a == end and op == 'Lt':
            return True
    return False


def strip(e):
    while isinstance(e, tuple) and e[0] == 'ref':
        e = e[1]
    return e


def stores_between(cfg, E, D, tgt, U, places):
    """is any of `places` assigned in a block on a path from the guard's taken edge to U (inclusive)"""
    fwd = cfg.reachable_from(tgt, avoid={D})
    between = set()
    for x in fwd:
        if x == U or U in cfg.reachable_from(x, avoid={D}):
            between.add(x)
    body = cfg.body
    for x in between:
        for s in body.blocks[x].stmts:
            if s.k == 'assign':
                t = E.target(s.place)
                if t in places:
                    return body.loc(s.sp)
        if x != U and body.blocks[x].term.k == 'call':
            t = E.target(body.blocks[x].term.dest)
            if t in places:
                return body.loc(body.blocks[x].term.sp)
    return None


def check_index_sites(body, D2):
    cfg = CFG(body)
    builders = [ExprBuilder(cfg), ExprBuilder(cfg, fold_named=True)]   # second: `let n = payload.len()` folded into its uses
    D2.fn(body.path)
    n = 0
    for blk in body.blocks:
        if blk.cleanup:
            continue
        t = blk.term
        verdicts = []
        for E in builders:
            site = None
            if t.k == 'call' and (t.callee.path in INDEX_CALLS or re.search(r'::(index|get_unchecked\w*|split_at\w*)$', t.callee.path)):
                bd = bound_of(E, t)
                if bd is None:
                    continue
                base = E.operand(t.args[0])
                site = (bd[0], bd[1], base, show(E.operand(t.args[1])))
            elif t.k == 'assert' and t.d['ak'] == 'BoundsCheck':
                ln, ix = [E.operand(Operand(o)) for o in t.d['ops']]
                site = ('bounds', ix, ln, show(ix))
            if site is None:
                continue
            kind, end, base, shown = site
            ok = None
            why = ''
            if kind == 'other' or end is None:
                why = 'unrecognised range form'
            else:
                for (cond, truth, Dg) in guards.known(cfg, E, blk.i):
                    if kind == 'bounds':
                        covers = truth is True and isinstance(cond, tuple) and cond[0] == 'bin' and cond[1] == 'Lt' and cond[2] == end and cond[3] == base
                    else:
                        covers = guard_covers(cond, truth, base, kind, end)
                    if covers:
                        # the edge of Dg that dominates blk
                        tgt = [S for (Dd, S, v, allv) in guards.dominating_edges(cfg, blk.i) if Dd == Dg]
                        st = stores_between(cfg, E, Dg, tgt[0], blk.i, vars_of(end)) if tgt else 'no edge'
                        if st is None:
                            ok = show(cond)
                            break
                        why = 'a variable of the bound is stored at %s between guard and use' % st
                if ok is None and not why:
                    why = 'no dominating guard `payload.len() >= %s`' % show(end)
            verdicts.append((ok, why, shown))
        if not verdicts:
            continue
        n += 1
        D2.sites += 1
        good = [v for v in verdicts if v[0]]
        if not good and t.k == 'call' and len(t.args) > 1:
            # second idiom: the guard is on a precomputed `avail = len - index`
            E0 = builders[0]
            rng = E0.operand(t.args[1])
            if isinstance(rng, tuple) and rng[0] == 'agg' and rng[1].endswith('Range::Range') and len(rng[2]) == 2:
                why2 = avail_discharge(cfg, body, blk, rng[2][0], rng[2][1])
                if why2:
                    good = [(why2, '', show(rng))]
        if good:
            D2.ok(sample={'site': body.loc(t.sp), 'access': good[0][2], 'guard': good[0][0]})
        else:
            ok, why, shown = verdicts[0]
            D2.violation(('unguarded-payload-access', body.path, shown), 'payload access [%s] at %s can read outside the payload: %s' % (shown, body.loc(t.sp), why), where=body.loc(t.sp))
    return n


def decoder_table(body):
    """tyle -> len from the switch on `tyle` whose arms assign constants to one local"""
    cfg = CFG(body)
    E = ExprBuilder(cfg)
    for blk in body.blocks:
        if blk.cleanup or blk.term.k != 'switch':
            continue
        if show(E.switch_cond(blk)) != 'tyle':
            continue
        table = {}
        for v, tgt in blk.term.d['vals']:
            for s in body.blocks[tgt].stmts:
                if s.k == 'assign' and s.place.is_local and s.rv['k'] == 'use':
                    o = Operand(s.rv['o'])
                    if o.is_const and o.value is not None:
                        table[v] = o.value
        if table:
            return table
    return {}


def fold(e):
    """tiny constant folder"""
    if not isinstance(e, tuple):
        return None
    if e[0] == 'const':
        return e[1]
    if e[0] == 'cast':
        return fold(e[1])
    if e[0] == 'bin':
        a, b = fold(e[2]), fold(e[3])
        if a is None or b is None:
            return None
        return {'BitOr': a | b, 'BitAnd': a & b, 'Add': a + b, 'Shl': a << b if b < 64 else None, 'Mul': a * b}.get(e[1])
    return None


def check_tables(F, dec, D1):
    D1.floor('decoder tyle table entries', len(dec), 4)
    rows = []
    for b in F.order:
        if b.impl_trait and b.impl_trait.endswith('::Serializer') and SER in (b.impl_self or '') and re.search(r'::serialize_(bool|[iuf]\d+|str|bytes)$', b.path):
            rows.append(b)
    D1.floor('encoder rows (serialize_<scalar|str|bytes>)', len(rows), 13)
    for b in rows:
        D1.fn(b.path)
        cfg = CFG(b)
        E = ExprBuilder(cfg, fold_named=True)
        name = b.path.split('::serialize_')[-1]
        type_infos = []
        value_bytes = []
        len_width = []

        def scan(fb, fE, bind, depth):
            # to_ne_bytes calls of the row function and (one level) of inherent Serializer helpers it calls; a helper's
            # parameter is bound to the argument expression of the call site
            for blk in fb.calls():
                t = blk.term
                p = t.callee.path
                m = re.match(r'core::num::<impl (\w+)>::to_ne_bytes$', p) or re.match(r'std::\w+::<impl (\w+)>::to_ne_bytes$', p) or re.search(r'<impl (\w+)>::to_ne_bytes$', p)
                if m:
                    ty = m.group(1)
                    arg = fE.operand(t.args[0])
                    if isinstance(arg, tuple) and arg[0] == 'place' and len(arg) == 2 and arg[1] in bind:
                        arg = bind[arg[1]]
                    elif bind and isinstance(arg, tuple):
                        import linform
                        arg = linform.subst(arg, bind)        # `base_type_info | (tyle as u32)` with both parameters bound at the call site
                    v = fold(arg)
                    if v is not None and ty == 'u32':
                        type_infos.append(v)
                    elif ty == 'u16' and name in ('str', 'bytes'):
                        len_width.append(2)
                    elif ty in WIDTH:
                        if name in ('str', 'bytes'):
                            len_width.append(WIDTH[ty])
                        else:
                            value_bytes.append(WIDTH[ty])
                elif depth == 0 and p.startswith(SER + '::') and F.get(p) is not None:
                    hb = F.get(p)
                    hE = ExprBuilder(CFG(hb), fold_named=True)
                    hbind = {}
                    for i, a in enumerate(t.args):
                        nm = hb.name_of(i + 1)
                        if nm:
                            hbind[nm] = fE.operand(a)
                    D1.fn(hb.path)
                    before = len(type_infos)
                    vb_before = list(value_bytes)
                    scan(hb, hE, hbind, 1)
                    if len(type_infos) == before:
                        # `fn push_fixed<const N: usize>(&mut self, type_info: u32, bytes: [u8; N])`: the type word depends on the const
                        # parameter; interpret the helper with N bound to the length of the array handed in at this call site
                        import cinterp
                        lens = [int(mm.group(1)) for a in t.args for mm in [re.match(r'^\[u8; (\d+)\]$', a.ty or '')] if mm]
                        cps = set()
                        import json as _json
                        for mm in re.finditer(r'"k": "const", "t": "usize", "s": "([A-Z][A-Z0-9_]*)"\}', _json.dumps([x.term.d for x in hb.blocks] + [s_.d for x in hb.blocks for s_ in x.stmts])):
                            cps.add(mm.group(1))
                        if len(lens) == 1 and len(cps) == 1:
                            seen_words = []

                            def hook(path, args, term, seen_words=seen_words):
                                if re.search(r'<impl u32>::to_ne_bytes$', path) and args and isinstance(args[0], int):
                                    seen_words.append(args[0])
                                return NotImplemented
                            I = cinterp.Interp(F, hooks=hook)
                            I.const_params = {list(cps)[0]: lens[0]}
                            try:
                                I.run(hb, [None] + [fold(fE.operand(a)) for a in t.args[1:]])
                                type_infos.extend(seen_words)
                                if seen_words:
                                    # the value written is the array handed in: N bytes (the helper's own u32 to_ne_bytes was the type word)
                                    del value_bytes[:]
                                    value_bytes.append(lens[0])
                            except cinterp.Unknown:
                                pass
        scan(b, E, {}, 0)
        D1.sites += 1
        if len(type_infos) != 1:
            D1.violation(('encoder-typeinfo', b.path), 'cannot extract exactly one constant type word written by %s (found %s)' % (b.path, type_infos), where=b.loc(None))
            continue
        ti = type_infos[0]
        tyle = ti & 0xF
        if name in ('str', 'bytes'):
            if len_width == [2] and tyle == 0 and (ti & (0x200 | 0x400)):
                D1.ok(sample={'encoder': name, 'type_word': hex(ti), 'length_prefix_bytes': 2, 'decoder_reads': '16-bit length'})
            else:
                D1.violation(('encoder-length-prefix', b.path), '%s writes type word %s with length prefix widths %s (decoder reads a 16-bit length for STRG/RAWD)' % (name, hex(ti), len_width), where=b.loc(None))
            continue
        want = value_bytes[0] if len(value_bytes) == 1 else None
        flag_ok = {'bool': 0x10, 'i': 0x20, 'u': 0x40, 'f': 0x80}
        fl = flag_ok['bool'] if name == 'bool' else flag_ok[name[0]]
        if want is not None and dec.get(tyle) == want and (ti & fl) and (ti & ~0xF) == fl:
            D1.ok(sample={'encoder': name, 'type_word': hex(ti), 'tyle': tyle, 'value_bytes': want, 'decoder_len': dec.get(tyle)})
        else:
            D1.violation(('width-mismatch', b.path), 'serialize_%s writes type word %s (tyle %d, flag expected %s) and %s value byte(s); the decoder maps tyle %d to %s byte(s)' %
                         (name, hex(ti), tyle, hex(fl), value_bytes, tyle, dec.get(tyle)), where=b.loc(None))


DECODE_STR = re.compile(r'(from_utf8_lossy|decode_without_bom_handling|from_utf8|from_utf8_unchecked|decode)$')


def in_type_branch(cfg, EF, at, mask):
    """is block `at` dominated by the true edge of `type_info & mask > 0`"""
    for (c, truth, D) in guards.known(cfg, EF, at):
        if truth is True and isinstance(c, tuple) and c[0] == 'bin' and c[1] in ('Gt', 'Ne') and fold(c[3]) == 0 and isinstance(c[2], tuple) and c[2][0] == 'bin' and c[2][1] == 'BitAnd' \
                and 'type_info' in show(c[2][2]) and fold(c[2][3]) == mask:
            return True
    return False


def check_string_sanitised(F, D3):
    """in the argument renderer every push_str whose text derives from decoding payload bytes as a string
    (from_utf8_lossy / WINDOWS_1252.decode...) also derives from Regex::replace_all (RE_NEW_LINE)"""
    from prov import Prov, calls_in
    b = F.get('adlt::dlt::DltMessage::process_msg_arg_iter')
    if b is None:
        D3.violation(('anchor-lost', 'process_msg_arg_iter'), 'argument renderer not found')
        return
    D3.fn(b.path)
    cfg = CFG(b)
    pr = Prov(cfg)
    EF = ExprBuilder(cfg, fold_named=True)
    n = 0
    for blk in b.calls():
        t = blk.term
        if not (t.callee.path.endswith('String::push_str') or t.callee.path.endswith('String::push') or t.callee.path.endswith('String::insert_str') or t.callee.path.endswith('String::extend')):
            continue
        toks = set()
        for a in t.args[1:]:
            toks |= pr.operand(a, at=blk.i)
        calls = calls_in(toks)
        if not any(DECODE_STR.search(c) for c in calls):
            continue
        # inside the raw-data branch the text is hex digits produced by the renderer itself (whatever buffer it goes through)
        if in_type_branch(cfg, EF, blk.i, 0x400):
            continue
        n += 1
        D3.sites += 1
        if any(c.endswith('Regex::replace_all') or c.endswith('Regex::replace') for c in calls):
            D3.ok(sample={'push_at': b.loc(t.sp), 'decoded_by': [c.split('::')[-1] for c in calls if DECODE_STR.search(c)], 'sanitised_by': 'Regex::replace_all'})
        else:
            D3.violation(('string-not-sanitised', b.path, '+'.join(sorted(set(c.split('::')[-1] for c in calls if DECODE_STR.search(c))))),
                         'a string argument decoded from payload bytes is pushed into the text at %s without passing the CR/LF/TAB replacement: control characters would show up raw in the canonical text' % b.loc(t.sp), where=b.loc(t.sp))
    D3.floor('string pushes in the argument renderer', n, 2)


# ---------------------------------------------------------------------------------------------
# D4: the 16-bit length prefix cannot wrap

INT_BITS = {'u8': 8, 'u16': 16, 'u32': 32, 'u64': 64, 'usize': 64, 'i8': 7, 'i16': 15, 'i32': 31, 'i64': 63, 'isize': 63}


def upper_bound(e, known, depth=0):
    """least upper bound derivable for expression e from constants, bool conversions, additions and the dominating guards"""
    INF = float('inf')
    if depth > 8:
        return INF
    best = INF
    se = show(e)
    for (c, truth, D) in known:
        if not (isinstance(c, tuple) and c[0] == 'bin' and truth is True):
            continue
        op, a, b = c[1], c[2], c[3]
        ka, kb = fold(a), fold(b)
        if show(a) == se and kb is not None:
            if op == 'Le':
                best = min(best, kb)
            elif op == 'Lt':
                best = min(best, kb - 1)
            elif op == 'Eq':
                best = min(best, kb)
        if show(b) == se and ka is not None:
            if op == 'Ge':
                best = min(best, ka)
            elif op == 'Gt':
                best = min(best, ka - 1)
    v = fold(e)
    if v is not None:
        return min(best, v)
    if isinstance(e, tuple):
        if e[0] == 'cast':
            inner = upper_bound(e[1], known, depth + 1)
            return min(best, inner)
        if e[0] == 'call' and re.search(r'From<bool>>::from$|::from$', e[1]) and e[2] and 'bool' in e[1]:
            return min(best, 1)
        if e[0] == 'bin' and e[1] == 'Add':
            return min(best, upper_bound(e[2], known, depth + 1) + upper_bound(e[3], known, depth + 1))
        if e[0] == 'bin' and e[1] == 'BitAnd':
            ks = [k for k in (fold(e[2]), fold(e[3])) if k is not None]
            if ks:
                return min(best, min(ks))
    return best


def check_length_prefix(F, D4):
    """In the verbose-payload encoder a length goes into a 16-bit field: every narrowing cast of a non-constant integer to
    u16 and every u16 addition must have an upper bound <= 65535 derivable from the dominating guards (otherwise a
    string of exactly the limit length wraps to 0 and the decoder sees different arguments)."""
    import guards
    bodies = [b for b in F.order if b.crate == 'lib' and 'ser_verb_payload' in b.path and 'tests' not in b.path]
    D4.floor('encoder bodies', len(bodies), 10)
    n = 0
    for b in bodies:
        cfg = None
        for blk in b.blocks:
            if blk.cleanup:
                continue
            sites = []
            for s in blk.stmts:
                if s.k == 'assign' and s.rv['k'] == 'cast' and s.rv.get('t') == 'u16':
                    o = Operand(s.rv['o'])
                    if o.is_const or (o.ty or '') in ('u8', 'u16', 'bool'):
                        continue
                    sites.append(('cast', s, None))
            if blk.term.k == 'assert' and blk.term.d['ak'] == 'Overflow(Add)':
                ops = [Operand(o) for o in blk.term.d['ops']]
                if any((o.ty or '') == 'u16' for o in ops):
                    sites.append(('add', None, ops))
            if not sites:
                continue
            cfg = cfg or CFG(b)
            E = ExprBuilder(cfg, fold_named=True)
            known = guards.known(cfg, E, blk.i)
            for (kind, s, ops) in sites:
                n += 1
                D4.sites += 1
                D4.fn(b.path)
                if kind == 'cast':
                    e = E.operand(Operand(s.rv['o']))
                    ub = upper_bound(e, known)
                    where = b.loc(s.sp)
                    what = '%s as u16' % show(e)[:60]
                else:
                    e = ('bin', 'Add', E.operand(ops[0]), E.operand(ops[1]))
                    ub = upper_bound(e, known)
                    where = b.loc(blk.term.sp)
                    what = 'u16 addition %s' % show(e)[:60]
                if ub <= 0xffff:
                    D4.ok(sample={'at': where, 'expression': what, 'upper_bound': ub})
                else:
                    D4.violation(('length-may-wrap', b.path, kind), 'the encoder computes %s at %s but the dominating guards bound it only by %s: a value above 65535 wraps in the 16-bit length field and the decoder reads different arguments' %
                                 (what, where, 'nothing' if ub == float('inf') else ub), where=where)
    D4.floor('16-bit length computations in the encoder', n, 1)


# ---------------------------------------------------------------------------------------------
# D2 (second discharge): guards on a precomputed "bytes available" value

def _lin_const(e):
    """(constant part, text of the rest or None) of a sum of constants and at most one other term"""
    if isinstance(e, tuple) and e[0] == 'cast':
        return _lin_const(e[1])
    v = fold(e)
    if v is not None:
        return (v, None)
    if isinstance(e, tuple) and e[0] == 'bin' and e[1] == 'Add':
        a, b = _lin_const(e[2]), _lin_const(e[3])
        if a is None or b is None or (a[1] is not None and b[1] is not None):
            return None
        return (a[0] + b[0], a[1] if a[1] is not None else b[1])
    return (0, show(e))


def avail_discharge(cfg, body, blk, lo, hi):
    """`let avail = payload.len().saturating_sub(self.index)` computed once, later reads at self.index .. self.index + N after
    the cursor advanced by K constant bytes since then: covered when a dominating guard `avail >= G` has G >= K + N on
    every path (path exploration summing the constant advances of the cursor since `avail` was computed; any
    non-constant advance makes K unknown).  Returns a reason text or None."""
    from paths import Explorer
    E2 = ExprBuilder(cfg, fold_named=False)
    EF = ExprBuilder(cfg, fold_named=True)
    if show(E2.operand(lo) if hasattr(lo, 'd') else lo) != '(*self).index' and show(lo) != '(*self).index':
        return None
    # the read length N = hi - lo
    hl = _lin_const_idx(hi)
    if hl is None:
        return None
    n_const, n_other = hl
    # candidate `avail` locals
    cands = {}
    for l, ds in cfg.defs.items():
        if len(ds) != 1 or body.name_of(l) is None:
            continue
        (bi, si, d) = ds[0]
        if si == 'call':
            txt = show(('call', d.callee.path, tuple(EF.operand(a) for a in d.args)))
        else:
            txt = show(EF.rvalue(d.rv))
        if re.match(r'(num::saturating_sub|usize::saturating_sub|Sub)\((Vec::len|slice::len|PtrMetadata)\(.*\), \(\*self\)\.index\)$', txt) or \
                re.search(r'saturating_sub\((Vec::len|slice::len)\(.*\), \(\*self\)\.index\)$', txt):
            cands[l] = (bi, si)
    if not cands:
        return None
    for A, (BA, asi) in cands.items():
        if not cfg.dominates(BA, blk.i):
            continue
        aname = body.name_of(A)

        def block_effect(b2, facts, BA=BA, asi=asi):
            k = None
            unk = ('unk',) in facts
            for f in facts:
                if f[0] == 'k':
                    k = f[1]
            stmts = list(enumerate(b2.stmts))
            for i, s in stmts:
                if b2.i == BA and asi != 'call' and i == asi:
                    k, unk = 0, False
                if s.k == 'assign' and show(E2.target(s.place)) == '(*self).index':
                    e = E2.rvalue(s.rv)
                    c = None
                    if isinstance(e, tuple) and e[0] == 'bin' and e[1] == 'Add' and show(e[2]) == '(*self).index':
                        c = fold(e[3])
                    elif isinstance(e, tuple) and e[0] in ('proj', 'place'):
                        # x = move (_t.0) of an AddWithOverflow temp
                        ef = EF.rvalue(s.rv)
                        if isinstance(ef, tuple) and ef[0] == 'bin' and ef[1] == 'Add' and show(ef[2]) == '(*self).index':
                            c = fold(ef[3])
                    if c is None:
                        unk = True
                    elif k is not None:
                        k = min(k + c, 1 << 20)
            if b2.i == BA and asi == 'call':
                k, unk = 0, False
            out = [f for f in facts if f[0] not in ('k', 'unk')]
            if k is not None:
                out.append(('k', k))
            if unk:
                out.append(('unk',))
            return frozenset(out)
        ex = Explorer(cfg, block_effect=block_effect, var_roots=set())
        ex.run()
        sts = ex.states.get(blk.i, ())
        if not sts:
            continue
        ks = set()
        bad = False
        for st in sts:
            if ('unk',) in st[1]:
                bad = True
            kk = [f[1] for f in st[1] if f[0] == 'k']
            if not kk:
                bad = True
            else:
                ks.add(kk[0])
        if bad or not ks:
            continue
        K = max(ks)
        for (c, truth, D) in guards.known(cfg, E2, blk.i):
            if not (isinstance(c, tuple) and c[0] == 'bin' and truth is True):
                continue
            op, x, y = c[1], c[2], c[3]
            if op in ('Le', 'Lt'):
                op, x, y = {'Le': 'Ge', 'Lt': 'Gt'}[op], y, x
            if op not in ('Ge', 'Gt') or x != ('place', aname):
                continue
            g = _lin_const(y)
            if g is None:
                continue
            g_const, g_other = g
            if op == 'Gt':
                g_const += 1
            if g_other == n_other and g_const >= K + n_const:
                return '`%s >= %s` with %s = len - index when computed, cursor advanced by %d since, read of %s byte(s)' % (
                    aname, show(y)[:30], aname, K, (str(n_const) if n_other is None else ('%d + %s' % (n_const, n_other))))
    return None


def _lin_const_idx(hi):
    """N for an upper bound written as (*self).index + N"""
    if not (isinstance(hi, tuple) and hi[0] == 'bin' and hi[1] == 'Add'):
        return None
    if show(hi[2]) == '(*self).index':
        return _lin_const(hi[3])
    if show(hi[3]) == '(*self).index':
        return _lin_const(hi[2])
    return None


# ---------------------------------------------------------------------------------------------
# D5: floats are rendered as floats

def check_float_rendering(F, D5):
    """The text form of a FLOA argument comes from the float formatter applied to the decoded value.  A detour through an
    integer (`val as i64`) loses -0.0, NaN, the infinities and everything beyond the integer range, so the argument
    renderer contains no float-to-integer cast at all (expected count: zero; the self-test corpus holds a variant that
    must fire)."""
    b = F.get('adlt::dlt::DltMessage::process_msg_arg_iter')
    if b is None:
        D5.violation(('anchor-lost', 'process_msg_arg_iter'), 'argument renderer not found')
        return
    D5.fn(b.path)
    bodies = [b] + list(F.closures_of(b.path))
    nfloat = 0
    bad = []
    for x in bodies:
        for blk in x.blocks:
            if blk.cleanup:
                continue
            for s in blk.stmts:
                if s.k == 'assign' and s.rv['k'] == 'cast' and s.rv.get('ck') == 'FloatToInt':
                    bad.append((x, s))
            if blk.term.k == 'call' and re.search(r'<impl f(32|64)>::from_(be|le|ne)_bytes$', blk.term.callee.path):
                nfloat += 1
    D5.sites += nfloat + len(bad)
    D5.floor('float decode sites (f32/f64::from_*_bytes) in the argument renderer', nfloat, 2)
    if bad:
        x, s = bad[0]
        D5.violation(('float-rendered-through-integer', b.path), 'the argument renderer casts a float to an integer at %s (%d site(s)): -0.0, NaN, infinities and large values lose their text form' % (x.loc(s.sp), len(bad)), where=x.loc(s.sp))
    else:
        D5.ok(sample={'float_decode_sites': nfloat, 'float_to_int_casts': 0})


# ---------------------------------------------------------------------------------------------
# D6: no byte-wise peeking into multi-byte numeric values

def _byte_context(cfg, E, at, raw_pred):
    """why a single byte read at block `at` is independent of the byte order: value is 1 byte long / BOOL / string / raw"""
    ENDIAN_FREE = {0x10: 'BOOL', 0x200: 'STRG', 0x400: 'RAWD'}
    for (c, truth, D) in guards.known(cfg, E, at):
        sc = show(c)
        if truth == ('eq', 1) and raw_pred(sc) and ('len(' in sc or 'PtrMetadata(' in sc):
            return 'value is one byte long (len == 1)'
        if truth is True and isinstance(c, tuple) and c[0] == 'bin' and c[1] == 'Eq' and fold(c[3]) == 1 and raw_pred(show(c[2])) and ('len(' in show(c[2]) or 'PtrMetadata(' in show(c[2])):
            return 'value is one byte long (len == 1)'
        if truth is True and isinstance(c, tuple) and c[0] == 'bin' and c[1] in ('Gt', 'Ne') and fold(c[3]) == 0 and isinstance(c[2], tuple) and c[2][0] == 'bin' and c[2][1] == 'BitAnd' \
                and 'type_info' in show(c[2][2]) and fold(c[2][3]) in ENDIAN_FREE:
            return 'argument is %s' % ENDIAN_FREE[fold(c[2][3])]
    return None


def check_single_byte_reads(F, D6):
    """"decodes each argument to its type and value": the value of a multi-byte SINT/UINT/FLOA is defined by all its bytes in
    the message byte order - the decode is `from_be_bytes`/`from_le_bytes` on the whole slice.  A decision taken from one
    byte picked by position (`raw[raw.len() - 1] & 0x80` for the sign, `raw[0]` as low byte) silently assumes one byte
    order.  So a single-byte read of `payload_raw` in the renderer, or of the raw slice in a helper it hands the slice to, is
    accepted only where the position cannot matter: under `len == 1`, for BOOL (one byte by construction of the iterator),
    or inside the string / raw-data branches (byte-wise text)."""
    b = F.get('adlt::dlt::DltMessage::process_msg_arg_iter')
    if b is None:
        D6.violation(('anchor-lost', 'process_msg_arg_iter'), 'argument renderer not found')
        return
    n = 0
    cfg = CFG(b)
    E = ExprBuilder(cfg, fold_named=True)
    D6.fn(b.path)

    def reads(body, bcfg, bE, raw_pred):
        for blk in body.blocks:
            if blk.cleanup or blk.term.k != 'assert' or blk.term.d['ak'] != 'BoundsCheck':
                continue
            ln = bE.operand(Operand(blk.term.d['ops'][0]))
            if raw_pred(show(ln)):
                yield blk
    in_b = lambda sx: 'payload_raw' in sx
    for blk in reads(b, cfg, E, in_b):
        n += 1
        D6.sites += 1
        why = _byte_context(cfg, E, blk.i, in_b)
        if why:
            D6.ok(sample={'byte_read_at': b.loc(blk.term.sp), 'order_independent_because': why})
        else:
            D6.violation(('byte-of-multibyte-value', b.path), 'the renderer reads a single byte of the argument value at %s outside `len == 1` / BOOL / string branches: a decision taken from one byte picked by position assumes one byte order' % b.loc(blk.term.sp),
                         where=b.loc(blk.term.sp))
    # helpers that receive the argument or its raw slice (followed two levels deep)
    import rawreads

    def follow(body, bcfg, bE, pred, ctx_outer, depth):
        nonlocal n
        for (cb, H, hpred) in rawreads.helper_calls(F, body, bE, pred):
            ctx = ctx_outer or _byte_context(bcfg, bE, cb.i, pred)
            hcfg = CFG(H)
            hE = ExprBuilder(hcfg, fold_named=True)
            D6.fn(H.path)
            for blk in rawreads.byte_reads(H, hE, hpred):
                n += 1
                D6.sites += 1
                why = ctx or _byte_context(hcfg, hE, blk.i, hpred)
                if why:
                    D6.ok(sample={'byte_read_at': H.loc(blk.term.sp), 'in_helper': H.path, 'order_independent_because': why})
                else:
                    D6.violation(('byte-of-multibyte-value', H.path), '%s, called by the renderer at %s with the raw argument value, reads a single byte of it at %s although the value can be longer than one byte there: '
                                 'a decision taken from one byte picked by position (sign, low byte) assumes one byte order - values of the other byte order are rendered wrongly' % (H.path, body.loc(cb.term.sp), H.loc(blk.term.sp)), where=H.loc(blk.term.sp))
            if depth < 2:
                follow(H, hcfg, hE, hpred, ctx, depth + 1)
    follow(b, cfg, E, in_b, None, 1)
    D6.floor('single-byte reads of the raw argument value in the renderer', n, 3)


# ---------------------------------------------------------------------------------------------
# D7: strings keep everything but one trailing NUL

SEARCH = re.compile(r'(Iterator::position|Iterator::rposition|Iterator::find|Iterator::take_while|Iterator::skip_while|slice::<impl \[T\]>::(split|splitn|rsplit|split_once|rsplitn|starts_with|strip_suffix|strip_prefix)|'
                    r'memchr\w*|CStr::\w+|str::<impl str>::(find|rfind|split\w*|trim\w*)|slice::<impl \[u8\]>::trim_ascii\w*)$')
DECODERS = re.compile(r'(String::from_utf8_lossy|String::from_utf8|str::from_utf8|str::from_utf8_unchecked|Encoding::decode\w*)$')


def check_string_extent(F, D7):
    """"strings with one trailing NUL removed": PRS_Dlt allows embedded NULs and says nothing of C-string semantics; the renderer
    drops exactly one trailing zero byte (zero-terminating senders) and shows everything else.  For every text decoder call in
    the renderer and its helpers whose input derives from the raw value: the backward provenance of the input contains no
    search primitive (position / find / split / trim / CStr ..) - the extent is `len` or `len - 1`, never "up to the first NUL"."""
    from prov import Prov, calls_in
    import rawreads
    b = F.get('adlt::dlt::DltMessage::process_msg_arg_iter')
    if b is None:
        D7.violation(('anchor-lost', 'process_msg_arg_iter'), 'argument renderer not found')
        return
    n = 0
    bodies = [b]
    cfg0 = CFG(b)
    E0 = ExprBuilder(cfg0, fold_named=True)
    for (cb, H, pred) in rawreads.helper_calls(F, b, E0, lambda sx: 'payload_raw' in sx):
        if H not in bodies:
            bodies.append(H)
    for x in bodies:
        D7.fn(x.path)
        cfg = CFG(x)
        pr = Prov(cfg)
        for blk in x.calls():
            t = blk.term
            if not DECODERS.search(t.callee.path):
                continue
            toks = set()
            for a in t.args:
                toks |= pr.operand(a, at=blk.i)
            raw = any(tk[0] == 'fld' and tk[2] == 'payload_raw' for tk in toks) or (x is not b and any(tk[0] == 'param' for tk in toks))
            if not raw:
                continue
            n += 1
            D7.sites += 1
            bad = sorted(set(c for c in calls_in(toks) if SEARCH.search(c)))
            # a helper that computes the slice: its body is part of the provenance
            for c in calls_in(toks):
                H = F.get(c)
                if H is not None and H.crate == 'lib' and H.kind != 'closure' and H.ret_type() in ('&[u8]', '&str'):
                    hp = Prov(CFG(H))
                    bad += sorted(set(c2 for c2 in calls_in(hp.origins(0)) if SEARCH.search(c2)))
                    D7.fn(H.path)
            if bad:
                D7.violation(('string-extent-by-search', x.path), 'the text of a string argument handed to %s at %s is delimited by %s: the string is cut at a NUL inside it (or otherwise searched) instead of keeping everything but one trailing NUL' %
                             (t.callee.path.split('::')[-1], x.loc(t.sp), ', '.join(c.split('::')[-1] + '()' for c in bad[:3])), where=x.loc(t.sp))
            else:
                D7.ok(sample={'decoder_call': x.loc(t.sp), 'input': 'raw value, extent not determined by a search'})
    D7.floor('text decoder calls on the raw value in the renderer', n, 2)


# ---------------------------------------------------------------------------------------------
# D8: raw data separators

def check_rawd_separator(F, D8):
    """"raw data as space-separated lower-case hex bytes": in the raw-data branch of the renderer the only thing that may
    distinguish the first byte from the others is its index in the *whole* raw value.  Every comparison of an index with 0
    inside that branch must be on the index component of `enumerate()` applied directly to an iterator over
    `arg.payload_raw` (the slice itself or its full range) - an index local to a chunk / window / split piece drops the
    separator at every piece boundary."""
    b = F.get('adlt::dlt::DltMessage::process_msg_arg_iter')
    if b is None:
        D8.violation(('anchor-lost', 'process_msg_arg_iter'), 'argument renderer not found')
        return
    D8.fn(b.path)
    cfg = CFG(b)
    E = ExprBuilder(cfg, fold_named=True)
    n = 0

    def whole_raw(x):
        for _ in range(10):
            if not isinstance(x, tuple):
                return False
            if x[0] in ('ref', 'cast'):
                x = x[1]
            elif x[0] == 'proj' and all(p_ == '*' for p_ in x[2:]):
                x = x[1]
            elif x[0] == 'call' and re.search(r'::(iter|into_iter|deref|as_ref)$', x[1]) and len(x[2]) == 1:
                x = x[2][0]
            elif x[0] == 'call' and x[1].endswith('::index') and len(x[2]) == 2:
                r = x[2][1]
                full = isinstance(r, tuple) and r[0] == 'agg' and ((r[1].endswith('Range::Range') and fold(r[2][0]) == 0 and 'payload_raw' in show(r[2][1]) and ('len(' in show(r[2][1]) or 'PtrMetadata' in show(r[2][1]))) or
                                                                     r[1].endswith('RangeFull::RangeFull'))
                if not full:
                    return False
                x = x[2][0]
            elif x[0] in ('place', 'proj'):
                pj = [p_ for p_ in x[2:] if p_ != '*']
                return bool(pj) and pj[-1] == '.payload_raw'
            else:
                return False
        return False
    for blk in b.blocks:
        if blk.cleanup or blk.term.k != 'switch' or not in_type_branch(cfg, E, blk.i, 0x400):
            continue
        c = E.switch_cond(blk)
        if not (isinstance(c, tuple) and c[0] == 'bin' and c[1] in ('Gt', 'Eq', 'Ne', 'Ge', 'Lt', 'Le') and (fold(c[3]) in (0, 1) or fold(c[2]) in (0, 1))):
            continue
        idx = c[2] if fold(c[3]) in (0, 1) else c[3]
        sidx = show(idx)
        if 'is_empty' in sidx or sidx.startswith('discr(') or 'type_info' in sidx or 'len(' in sidx[:12]:
            continue
        n += 1
        D8.sites += 1
        ok = False
        top = idx
        if isinstance(top, tuple) and top[0] == 'proj' and isinstance(top[1], tuple) and top[1][0] == 'call' and top[1][1].endswith('Iterator::next') and tuple(top[2:]) == ('@Some', '.0', '.0'):
            it = top[1][2][0]
            for _ in range(6):
                if isinstance(it, tuple) and (it[0] == 'ref' or (it[0] == 'proj' and len(it) == 2)):
                    it = it[1]
                elif isinstance(it, tuple) and it[0] == 'call' and it[1].endswith('IntoIterator::into_iter') and it[2]:
                    it = it[2][0]
            if isinstance(it, tuple) and it[0] == 'call' and it[1].endswith('Iterator::enumerate') and whole_raw(it[2][0]):
                ok = True
        if ok:
            D8.ok(sample={'first_byte_test_at': b.loc(blk.term.sp), 'index_of': 'enumerate() over the whole raw value'})
        else:
            D8.violation(('rawd-separator-by-local-index', b.path), 'in the raw-data branch the first-byte test at %s compares %s, which is not the index of the byte in the whole raw value: separators are dropped (or doubled) at the boundaries of the pieces it is local to' %
                         (b.loc(blk.term.sp), sidx[:70]), where=b.loc(blk.term.sp))
    # second spelling: take the first byte off the iterator (`if let Some(first) = it.next()`), then loop over the *same*
    # iterator for the remaining bytes - the Some edge of the first next() is the first-byte test
    loops = cfg.loops()
    groups = {}
    for blk in b.calls():
        t = blk.term
        if t.callee.path != 'std::iter::Iterator::next' or not t.args or 'slice::Iter<' not in (t.args[0].ty or '') or 'u8' not in (t.args[0].ty or ''):
            continue
        if not in_type_branch(cfg, E, blk.i, 0x400):
            continue
        root = cfg.origin_of_operand(t.args[0])
        if root is None or not root.is_local:
            continue
        rl = root.l
        for _ in range(6):
            # `for c in it` moves the iterator through IntoIterator::into_iter: the same iterator
            sd_ = cfg.single_def(rl)
            if sd_ is not None and sd_[1] == 'call' and sd_[2].callee.path.endswith('IntoIterator::into_iter') and sd_[2].args and sd_[2].args[0].place is not None and sd_[2].args[0].place.is_local and not sd_[2].args[0].place.p:
                r2 = cfg.origin_of_operand(sd_[2].args[0])
                if r2 is not None and r2.is_local:
                    rl = r2.l
                    continue
            if sd_ is not None and sd_[1] != 'call' and sd_[2].rv['k'] == 'use' and Operand(sd_[2].rv['o']).place is not None and Operand(sd_[2].rv['o']).place.is_local and not Operand(sd_[2].rv['o']).place.p:
                rl = Operand(sd_[2].rv['o']).place.l
                continue
            break
        root = type('R', (), {'l': rl})()
        src = E.operand(t.args[0])
        while isinstance(src, tuple) and (src[0] == 'ref' or (src[0] == 'proj' and len(src) == 2) or (src[0] == 'call' and src[1].endswith('IntoIterator::into_iter') and src[2])):
            src = src[1] if src[0] != 'call' else src[2][0]
        inner = [h for h, lb in loops.items() if blk.i in lb and in_type_branch(cfg, E, h, 0x400)]
        groups.setdefault(root.l, []).append((blk, bool(inner), whole_raw(src)))
    for l, calls in groups.items():
        firsts = [c for c in calls if not c[1]]
        rests = [c for c in calls if c[1]]
        if firsts and rests:
            n += 1
            D8.sites += 1
            if all(c[2] for c in calls) and len(firsts) == 1:
                D8.ok(sample={'first_byte_taken_at': b.loc(firsts[0][0].term.sp), 'rest_looped_over': 'the same iterator over the whole raw value'})
            else:
                D8.violation(('rawd-separator-by-local-index', b.path), 'in the raw-data branch the first byte is taken off an iterator at %s that does not run over the whole raw value (or more than once): separators do not follow the byte position' % b.loc(firsts[0][0].term.sp),
                             where=b.loc(firsts[0][0].term.sp))
    D8.floor('first-byte tests in the raw-data branch of the renderer', n, 1)


# ---------------------------------------------------------------------------------------------
# D9: the argument separator

def check_numeric_decode_table(F, D10):
    """"canonical decimal text": the renderer is a table (class of the type info) x (length of the value) -> integer type.  A row
    that decodes with the wrong signedness (UINT 64 bit as i64), the wrong width or the other byte order renders a different
    number for part of the value range only (values >= 2^63, ..), which no fixed sample shows.  Rows may live in private
    helpers the renderer calls with the argument (`push_uint_arg(arg, ..)`): the class is then that of the call site."""
    b = F.get('adlt::dlt::DltMessage::process_msg_arg_iter')
    if b is None:
        D10.violation(('anchor-lost', 'process_msg_arg_iter'), 'argument renderer not found')
        return
    D10.fn(b.path)
    cfg = CFG(b)
    EF = ExprBuilder(cfg, fold_named=True)
    CLASS = ((0x40, 'u', 'UINT'), (0x20, 'i', 'SINT'), (0x80, 'f', 'FLOA'))

    def classes_at(bi):
        return [(mask, l, nm) for (mask, l, nm) in CLASS if in_type_branch(cfg, EF, bi, mask)]
    units = [(b, cfg, EF, None)]            # (body, cfg, E, class fixed by the call site or None)
    for cb in b.calls():
        t = cb.term
        H = F.get(t.callee.resolved) if t.callee.resolved else F.get(t.callee.path)
        if H is None or H.kind == 'closure' or H.crate != 'lib' or H.path == b.path:
            continue
        if not any(re.match(r"&(mut )?adlt::dlt::DltArg<", a.ty or '') or (a.ty or '') == '&[u8]' for a in t.args):
            continue
        if not any(re.search(r'::from_(be|le|ne)_bytes$', x.term.callee.path) for x in H.calls()):
            continue
        cls = classes_at(cb.i)
        hcfg = CFG(H)
        units.append((H, hcfg, ExprBuilder(hcfg, fold_named=True), cls))
        D10.fn(H.path)
    n = 0
    for (body, c_, E_, fixed) in units:
        pnames = [body.name_of(i) or 'arg%d' % i for i, t_ in enumerate(body.arg_types(), start=1) if t_ == '&[u8]'] if fixed is not None else []
        for blk in body.calls():
            m = re.match(r'^core::(?:num|f\d+)::<impl ([uif])(\d+)>::from_(be|le|ne)_bytes$', blk.term.callee.path)
            if not m:
                continue
            letter, bits, order = m.group(1), int(m.group(2)), m.group(3)
            n += 1
            D10.sites += 1
            where = body.loc(blk.term.sp)
            cls = fixed if fixed is not None else classes_at(blk.i)
            if fixed is not None and len(fixed) != 1:
                # a helper shared by several classes decides the class itself
                cls = [(mask, l, nm) for (mask, l, nm) in CLASS if in_type_branch(c_, E_, blk.i, mask)]
            width = None
            endian = None
            for (c, truth, D) in guards.known(c_, E_, blk.i):
                sc = show(c)
                if re.search(r'(len\(|PtrMetadata\()', sc) and ('payload_raw' in sc or any(re.search(r'(^|[^A-Za-z0-9_])%s($|[^A-Za-z0-9_])' % re.escape(pn), sc) for pn in pnames)):
                    is_cmp = isinstance(c, tuple) and c[0] == 'bin'
                    if not is_cmp and isinstance(truth, tuple) and truth[0] == 'eq':
                        width = truth[1]               # `match raw.len() { 2 => ..`: switch on the length itself
                    elif is_cmp and c[1] == 'Eq' and truth is True and fold(c[3]) is not None:
                        width = fold(c[3])             # `if raw_len == 2`
                if truth in (True, False) and (re.search(r'\.is_big_endian\)?$', sc) or (fixed is not None and re.match(r'^\(?\*?\(?\w*big_endian\w*\)?\)?$', sc))):
                    endian = truth
            probs = []
            if len(cls) != 1:
                probs.append(('class-unknown', 'is not inside exactly one of the UINT / SINT / FLOA branches'))
            elif cls[0][1] != letter:
                probs.append(('signedness', 'decodes as %s%d inside the %s branch' % (letter, bits, cls[0][2])))
            if width is None:
                probs.append(('width-unknown', 'is not under a test of the length of the raw value'))
            elif width * 8 != bits:
                probs.append(('width', 'decodes %d bits in the arm for values of %d bytes' % (bits, width)))
            if order == 'ne' or endian is None:
                probs.append(('byte-order', 'is not selected by is_big_endian'))
            elif endian != (order == 'be'):
                probs.append(('byte-order', 'uses from_%s_bytes on the is_big_endian == %s edge' % (order, str(endian).lower())))
            if probs:
                for k, pr in probs:
                    D10.violation(('decode-table', k, '%s%d' % (letter, bits)), 'the decode %s%d::from_%s_bytes at %s %s: the rendered number differs from the encoded one for part of the value range' % (letter, bits, order, where, pr), where=where)
            else:
                D10.ok(sample={'row': '%s x %d bytes' % (cls[0][2], width), 'decodes_as': '%s%d' % (letter, bits), 'order': order, 'at': where})
    D10.floor('from_be/le_bytes rows of the renderer', n, 10)


def check_arg_separator(F, D9):
    """"arguments joined by single spaces": n arguments give n - 1 separators, also when an argument renders to the empty string
    (empty string, zero-length raw data).  The separator push at the head of the argument loop (a String::push of ' ' that is
    not inside any type branch) must be guarded by `index > 0` where index is the enumerate() position over the argument
    iterator parameter; a guard on the text (`!text.is_empty()`) drops separators after empty leading arguments."""
    b = F.get('adlt::dlt::DltMessage::process_msg_arg_iter')
    if b is None:
        D9.violation(('anchor-lost', 'process_msg_arg_iter'), 'argument renderer not found')
        return
    D9.fn(b.path)
    cfg = CFG(b)
    E = ExprBuilder(cfg, fold_named=True)
    it_param = None
    for i, t in enumerate(b.arg_types(), start=1):
        if not t.startswith('&'):
            it_param = b.name_of(i) or 'arg%d' % i
            break
    n = 0
    for blk in b.calls():
        t = blk.term
        if not (t.callee.path.endswith('String::push') and len(t.args) > 1 and t.args[1].is_const and t.args[1].value in (32, ' ')):
            continue
        if any(in_type_branch(cfg, E, blk.i, m) for m in (0x10, 0x20, 0x40, 0x80, 0x200, 0x400)):
            continue
        n += 1
        D9.sites += 1
        ok = None
        for (c, truth, D) in guards.known(cfg, E, blk.i):
            if truth is True and isinstance(c, tuple) and c[0] == 'bin' and c[1] in ('Gt', 'Ne') and fold(c[3]) == 0:
                idx = c[2]
                if isinstance(idx, tuple) and idx[0] == 'proj' and isinstance(idx[1], tuple) and idx[1][0] == 'call' and idx[1][1].endswith('Iterator::next') and tuple(idx[2:]) == ('@Some', '.0', '.0'):
                    it = idx[1][2][0]
                    for _ in range(6):
                        if isinstance(it, tuple) and (it[0] == 'ref' or (it[0] == 'proj' and len(it) == 2)):
                            it = it[1]
                        elif isinstance(it, tuple) and it[0] == 'call' and it[1].endswith('IntoIterator::into_iter') and it[2]:
                            it = it[2][0]
                    if isinstance(it, tuple) and it[0] == 'call' and it[1].endswith('Iterator::enumerate') and it[2] and it[2][0] == ('place', it_param):
                        ok = 'index of enumerate() over `%s` > 0' % it_param
        # .. and by nothing else: any further condition between the loop head and the push (a test of the text, of the
        # argument type, ..) makes the separator depend on more than the position
        extra = None
        if ok:
            loops = cfg.loops()
            inner = [lb for lb in loops.values() if blk.i in lb]
            body_blocks = min(inner, key=len) if inner else set()
            for (c, truth, D) in guards.known(cfg, E, blk.i):
                if D not in body_blocks:
                    continue
                cs = show(c)
                if isinstance(c, tuple) and c[0] == 'bin' and c[1] in ('Gt', 'Ne') and fold(c[3]) == 0 and 'Iterator::next' in cs:
                    continue
                if cs.startswith('discr(') and 'Iterator::next(' in cs and 'ends_with' not in cs:
                    continue
                extra = cs[:80]
        if ok and extra:
            ok = None
        if ok:
            D9.ok(sample={'separator_push_at': b.loc(t.sp), 'guard': ok})
        else:
            D9.violation(('separator-not-by-position', b.path), 'the separator between arguments is pushed at %s under a guard that is not `position of the argument > 0`: arguments that render to nothing lose (or gain) separators, '
                         'the text is no longer the single-space join of the rendered arguments' % b.loc(t.sp), where=b.loc(t.sp))
    D9.floor('separator pushes at the head of the argument loop', n, 1)
