"""Constant propagation through MIR under one valuation of a finite set of inputs (inter-procedural).

Not an execution of adlt: only integer / bool constants, tuples / arrays of them and enum variant tags flow; everything else
is the unknown value None.  A branch on an unknown value raises Unknown (the caller then falls back to a syntactic rule).
Calls of functions and closures of the crate are followed (their bodies are interpreted with the argument values), a few
std functions are modelled (Option::is_some/is_none, <int>::to_be_bytes/to_le_bytes, slice::len / is_empty on a modelled
slice, Try::branch), calls named in `hooks` are answered by the caller, every other call returns the unknown value."""
import re


class Unknown(Exception):
    pass


class Variant:
    """value of an enum of which only the variant index is known"""
    __slots__ = ('k',)

    def __init__(self, k):
        self.k = k

    def __repr__(self):
        return 'Variant(%d)' % self.k


class SliceOfLen:
    __slots__ = ('n',)

    def __init__(self, n):
        self.n = n


INT_BYTES = {'u8': 1, 'i8': 1, 'u16': 2, 'i16': 2, 'u32': 4, 'i32': 4, 'u64': 8, 'i64': 8}


class Interp:
    def __init__(self, F, hooks=None, field_hook=None, max_steps=600, max_depth=5):
        self.F = F
        self.hooks = hooks or (lambda path, args, term: NotImplemented)
        self.field_hook = field_hook or (lambda name: None)
        self.max_steps = max_steps
        self.max_depth = max_depth
        self.trace = []          # (callee path, [arg values]) of calls answered by a hook with record=True

    # ------------------------------------------------------------------ values
    def place_val(self, env, pl):
        p = pl.get('p', [])
        if p and p[-1].get('k') == 'f':
            fv = self.field_hook(p[-1].get('n'))
            if fv is not None:
                return fv
        v = env.get(pl['l'])
        for e in p:
            k = e['k']
            if k == 'deref':
                continue
            if k == 'f' and isinstance(v, tuple) and e['i'] < len(v):
                v = v[e['i']]
            elif k == 'cidx' and isinstance(v, tuple):
                i = (len(v) - e['off']) if e.get('fe') else e['off']
                v = v[i] if 0 <= i < len(v) else None
            elif k == 'idx' and isinstance(v, tuple):
                i = env.get(e['l'])
                v = v[i] if isinstance(i, int) and 0 <= i < len(v) else None
            else:
                return None
        return v

    def opval(self, env, o):
        if o['k'] == 'const':
            if o.get('v') is None and o.get('s') in getattr(self, 'const_params', {}):
                return self.const_params[o['s']]          # a const generic parameter bound by the caller (`fn f<const N: usize>`)
            return o.get('v')
        return self.place_val(env, o['p'])

    def rv_val(self, env, rv):
        k = rv['k']
        if k in ('use', 'cast'):
            return self.opval(env, rv['o'])
        if k in ('ref', 'rawptr'):
            return self.place_val(env, rv['p'])
        if k == 'discr':
            v = self.place_val(env, rv['p'])
            return v.k if isinstance(v, Variant) else None
        if k == 'bin':
            a, b = self.opval(env, rv['a']), self.opval(env, rv['b'])
            op = rv['op']
            if not isinstance(a, int) or not isinstance(b, int):
                return None
            base = op.replace('WithOverflow', '').replace('Unchecked', '')
            fn = {'Add': lambda: a + b, 'Sub': lambda: a - b, 'Mul': lambda: a * b, 'BitOr': lambda: a | b, 'BitAnd': lambda: a & b, 'BitXor': lambda: a ^ b,
                  'Shl': lambda: a << b, 'Shr': lambda: a >> b, 'Eq': lambda: int(a == b), 'Ne': lambda: int(a != b), 'Lt': lambda: int(a < b),
                  'Le': lambda: int(a <= b), 'Gt': lambda: int(a > b), 'Ge': lambda: int(a >= b)}.get(base)
            if fn is None:
                return None
            r = fn()
            if op.endswith('WithOverflow'):
                return (r, 0)
            return r
        if k == 'un':
            a = self.opval(env, rv['a'])
            if rv['op'] == 'Not' and a in (0, 1):
                return int(not a)
            return None
        if k == 'agg' and rv.get('ak') in ('tuple', 'array'):
            return tuple(self.opval(env, o) for o in rv['ops'])
        return None

    # ------------------------------------------------------------------ calls
    def call(self, term, args, depth):
        c = term.callee
        p = c.path if c else ''
        r = self.hooks(p, args, term)
        if r is not NotImplemented:
            return r
        nm = p.split('::')[-1]
        if p.startswith('std::option::Option::<') and nm in ('is_some', 'is_none') and args and isinstance(args[0], Variant):
            return int(args[0].k == 1) if nm == 'is_some' else int(args[0].k == 0)
        m = re.match(r'core::num::<impl ([ui]\d+)>::to_(be|le|ne)_bytes$', p)
        if m and args and isinstance(args[0], int) and m.group(1) in INT_BYTES:
            n = INT_BYTES[m.group(1)]
            bs = tuple((args[0] >> (8 * i)) & 0xff for i in range(n))
            return bs[::-1] if m.group(2) == 'be' else bs
        if p in ('core::slice::<impl [T]>::len', 'std::vec::Vec::<T, A>::len') and args and isinstance(args[0], SliceOfLen):
            return args[0].n
        if p in ('core::slice::<impl [T]>::is_empty', 'std::vec::Vec::<T, A>::is_empty') and args and isinstance(args[0], SliceOfLen):
            return int(args[0].n == 0)
        if p == 'std::ops::Try::branch' and args and isinstance(args[0], Variant):
            return Variant(args[0].k)
        if p in ('std::ops::Fn::call', 'std::ops::FnMut::call_mut', 'std::ops::FnOnce::call_once') and c.resolved:
            cl = self.F.get(c.resolved)
            if cl is not None and depth < self.max_depth:
                tup = args[1] if len(args) > 1 and isinstance(args[1], tuple) else None
                if tup is not None and cl.arg_count == 1 + len(tup):
                    return self.run(cl, [args[0]] + list(tup), depth + 1)[1]
            return None
        H = self.F.get(c.resolved) if c is not None and c.resolved else (self.F.get(p) if p else None)
        if H is not None and H.kind != 'closure' and H.crate in ('lib', 'bin') and depth < self.max_depth and H.arg_count == len(args):
            return self.run(H, args, depth + 1)[1]
        return None

    # ------------------------------------------------------------------ run
    def run(self, body, args, depth=0, stop_at_index=False):
        """('ret', value) at the return; ('index', value) at the first slice bounds check when stop_at_index"""
        env = {}
        for i, a in enumerate(args):
            env[i + 1] = a
        bi = 0
        for _ in range(self.max_steps):
            blk = body.blocks[bi]
            for s in blk.stmts:
                if s.k == 'assign':
                    pl = s.d['p']
                    if not pl.get('p'):
                        env[pl['l']] = self.rv_val(env, s.rv)
            t = blk.term
            if t.k == 'goto':
                bi = t.d['t']
            elif t.k == 'return':
                return ('ret', env.get(0))
            elif t.k == 'call':
                vals = [self.opval(env, a) for a in t.d.get('args', [])]
                val = self.call(t, vals, depth)
                dest = t.d.get('dest')
                if dest is not None and not dest.get('p'):
                    env[dest['l']] = val
                if t.d.get('t') is None:
                    raise Unknown('diverging call')
                bi = t.d['t']
            elif t.k == 'switch':
                v = self.opval(env, t.d['d'])
                if not isinstance(v, int):
                    raise Unknown('branch on a non-constant at %s' % body.loc(t.sp))
                nxt = t.d['otherwise']
                for (k_, tg) in t.d['vals']:
                    if k_ == v:
                        nxt = tg
                bi = nxt
            elif t.k == 'assert':
                if stop_at_index and t.d['ak'] == 'BoundsCheck':
                    iv = self.opval(env, t.d['ops'][1])
                    if iv is None:
                        raise Unknown('non-constant index')
                    return ('index', iv)
                bi = t.d['t']
            elif t.k == 'drop':
                bi = t.d['t']
            else:
                raise Unknown('terminator ' + t.k)
        raise Unknown('step limit')
