"""C20 - archives: extraction is faithful and confined (structural clauses).

Decided: X1 in the zip path of extract_to_dir every fs-mutating sink is fed from
target_dir.join(n) (or its parent) with n flowing from ZipFile::enclosed_name() or a rename_map value;
rename_map values are only inserted from Path::file_stem; target_dir at every call site comes from a
TempDir; forbidden sources (ZipFile::name / mangled_name, raw listing strings) do not reach a sink.
X2 the fs-mutating call sites of the archive module are exactly the reviewed ones.
Not decided: SeekableChain == concatenation under all read/seek sequences, content identity, glob
selection.  The `libarchive` cfg branch cannot be built offline and is reported as not analysed."""
import re
from cfg import CFG
from expr import ExprBuilder, show
from prov import Prov, calls_in, params_in

LEVEL = 'proof'
EXPLANATION = ('Backward data-provenance (all definitions, intraprocedural) of every operand of create_dir_all/File::create in the archive module; who-may-call census of fs-mutating functions.')
ASSUMPTIONS = [
    'decides structural clauses only: SeekableChain position arithmetic (incl. the empty-volume early EOF named in the property), content identity and glob selection are NOT decided',
    'zip::read::ZipFile::enclosed_name returns None for names that escape the destination (library contract, trusted)',
    'the `libarchive` feature (compress-tools) is not in the offline cargo cache: its cfg blocks are not compiled and NOT analysed',
]
MANIFEST = {'text': 'proof (over-approximating backward data provenance) that no path component of an extracted file comes from an unsanitised member name: sinks are fed by enclosed_name()/file_stem()-derived '
                    'rename values joined onto a TempDir path; the set of fs-mutating call sites in the archive module equals the reviewed set.'}

SINK = re.compile(r'^std::fs::(create_dir_all|create_dir|File::create|File::create_new|write|rename|copy|remove_file|remove_dir_all|remove_dir|hard_link|OpenOptions::open|set_permissions)$|^std::os::unix::fs::symlink$')
FORBIDDEN = re.compile(r'ZipFile(::<[^>]*>|<[^>]*>)?::(name|mangled_name|name_raw)$')
UNZIP = 'adlt::utils::unzip::'
REVIEWED = {'adlt::utils::unzip::extract_to_dir': {'std::fs::create_dir_all': 2, 'std::fs::File::create': 1}}


def expand_closures(F, toks, depth=0):
    """a value that flowed through a closure may derive from anything the closure calls"""
    out = set(toks)
    if depth > 3:
        return out
    for t in list(toks):
        if t[0] == 'closure':
            cl = F.get(t[1])
            if cl is not None:
                inner = set()
                for blk in cl.calls():
                    inner.add(('call', blk.term.callee.path))
                for b in cl.blocks:
                    for st in b.stmts:
                        if st.k == 'assign' and st.rv['k'] == 'agg' and st.rv.get('ak') == 'closure':
                            inner.add(('closure', st.rv['closure']))
                out |= expand_closures(F, inner, depth + 1)
    return out


def run(F, chk):
    X1 = chk.rule('X1', 'every fs-mutating sink in extract_to_dir is fed from target_dir.join(enclosed_name | rename value); rename values come from file_stem; target_dir from a TempDir')
    X2 = chk.rule('X2', 'fs-mutating call sites in the archive module are exactly the reviewed ones')
    bodies = [b for b in F.order if b.path.startswith(UNZIP) or (b.closure_of or '').startswith(UNZIP)]
    X2.floor('bodies of the archive module', len(bodies), 20)
    found = {}
    for b in bodies:
        for blk in b.calls():
            p = blk.term.callee.path
            if SINK.match(p):
                root = b.closure_of or b.path
                found.setdefault(root, {}).setdefault(p, []).append((b, blk))
    X2.sites += sum(len(v) for d in found.values() for v in d.values())
    for root, d in sorted(found.items()):
        for p, sites in sorted(d.items()):
            X2.fn(root)
            want = REVIEWED.get(root, {}).get(p, 0)
            if len(sites) == want:
                X2.ok(sample={'function': root, 'sink': p, 'sites': [b.loc(blk.term.sp) for (b, blk) in sites]})
            else:
                b, blk = sites[-1]
                X2.violation(('fs-sites', root, p, 'have%d' % len(sites), 'reviewed%d' % want), '%s has %d call site(s) of %s, the reviewed set has %d' % (root, len(sites), p, want), where=b.loc(blk.term.sp))
    for root, d in REVIEWED.items():
        for p, want in d.items():
            if len(found.get(root, {}).get(p, [])) < want:
                X2.violation(('fs-sites-missing', root, p), 'reviewed site of %s in %s not found (anchor lost)' % (p, root))
    # X1 provenance
    ex = F.get('adlt::utils::unzip::extract_to_dir')
    if ex is None:
        X1.violation(('anchor-lost', 'extract_to_dir'), 'extract_to_dir not found')
        return
    cfg = CFG(ex)
    pr = Prov(cfg)
    X1.fn(ex.path)
    n = 0
    for blk in ex.calls():
        p = blk.term.callee.path
        if not SINK.match(p):
            continue
        n += 1
        X1.sites += 1
        toks = expand_closures(F, pr.operand(blk.term.args[0], at=blk.i))
        calls = calls_in(toks)
        params = params_in(toks)
        bad = [c for c in calls if FORBIDDEN.search(c)]
        has_join = any(c.endswith('Path::join') for c in calls)
        has_safe = any(c.endswith('::enclosed_name') for c in calls)
        has_target = 'target_dir' in params
        bad_params = [x for x in params if x not in ('target_dir', 'rename_map', 'source', 'shall_cancel')]
        if not bad and has_join and has_safe and has_target and not bad_params:
            X1.ok(sample={'sink': p, 'at': ex.loc(blk.term.sp), 'params': params, 'name_sources': [c for c in calls if 'ZipFile' in c or 'HashMap' in c or 'Path::' in c][:8]})
        else:
            X1.violation(('unconfined-sink', ex.path, p.split('::')[-1], 'forbidden%d' % len(bad), 'safe%s' % has_safe, 'params_' + '_'.join(bad_params)),
                         'the operand of %s at %s is not confined: forbidden name sources %s, enclosed_name in provenance: %s, joined onto target_dir: %s, other parameters reaching it: %s' %
                         (p, ex.loc(blk.term.sp), bad, has_safe, has_join and has_target, bad_params), where=ex.loc(blk.term.sp))
    X1.floor('fs-mutating sinks in extract_to_dir', n, 3)
    # rename_map inserts and target_dir at call sites
    ncall = 0
    nins = 0
    for b in F.order:
        if b.crate not in ('lib', 'bin'):
            continue
        sites = [blk for blk in b.calls() if blk.term.callee.path == 'adlt::utils::unzip::extract_to_dir']
        inserts = [blk for blk in b.calls() if re.search(r'HashMap::<.*>::insert$', blk.term.callee.path) and 'std::string::String, std::string::String' in (blk.term.args[0].ty or '')]
        if not sites:
            continue
        cfg2 = CFG(b)
        pr2 = Prov(cfg2)
        E2 = ExprBuilder(cfg2)
        for blk in sites:
            ncall += 1
            X1.sites += 1
            X1.fn(b.path)
            toks = pr2.operand(blk.term.args[1], at=blk.i)
            calls = calls_in(toks)
            if any(c.endswith('TempDir::path') or 'tempfile::' in c for c in calls):
                X1.ok(sample={'caller': b.path, 'target_dir': 'TempDir::path()'})
            else:
                X1.violation(('target-dir-not-temp', b.closure_of or b.path), 'extract_to_dir is called at %s with a target directory that does not come from a TempDir (%s)' % (b.loc(blk.term.sp), calls[:6]), where=b.loc(blk.term.sp))
        for blk in inserts:
            if 'rename_map' not in show(E2.operand(blk.term.args[0])):
                continue
            nins += 1
            X1.sites += 1
            toks = pr2.operand(blk.term.args[2], at=blk.i)
            calls = calls_in(toks)
            if any(c.endswith('Path::file_stem') for c in calls) and not any('list_archive' in c for c in calls):
                X1.ok(sample={'rename_map_insert_at': b.loc(blk.term.sp), 'value_from': 'Path::file_stem()'})
            else:
                X1.violation(('rename-value', b.closure_of or b.path), 'a rename_map value inserted at %s does not come (only) from Path::file_stem: %s' % (b.loc(blk.term.sp), calls[:8]), where=b.loc(blk.term.sp))
    X1.floor('call sites of extract_to_dir', ncall, 1)
    X1.floor('rename_map inserts', nins, 1)
