"""C20 - archives: extraction is faithful and confined (structural clauses).

Decided: X1 in the zip path of extract_to_dir every fs-mutating sink is fed from
target_dir.join(n) (or its parent) with n flowing from ZipFile::enclosed_name() or a rename_map value;
rename_map values are only inserted from Path::file_stem; target_dir at every call site comes from a
TempDir; forbidden sources (ZipFile::name / mangled_name, raw listing strings) do not reach a sink.
X2 the fs-mutating call sites of the archive module are exactly the reviewed ones.
Not decided: SeekableChain == concatenation under all read/seek sequences, content identity, glob
selection.  The `libarchive` cfg branch cannot be built offline and is reported as not analysed."""
import re
import guards
from cfg import CFG
from expr import ExprBuilder, show
from prov import Prov, calls_in, params_in

LEVEL = 'proof'
EXPLANATION = ('Backward data-provenance (all definitions, intraprocedural) of every operand of create_dir_all/File::create in the archive module; who-may-call census of fs-mutating functions.')
ASSUMPTIONS = [
    'decides structural clauses only: SeekableChain position arithmetic (incl. the empty-volume early EOF named in the property), content identity and glob selection are NOT decided',
    'zip::read::ZipFile::enclosed_name returns None for names that escape the destination (library contract, trusted)',
    'the `libarchive` feature (compress-tools) is not in the offline cargo cache: its cfg blocks are not compiled and NOT analysed',
]
MANIFEST = {'text': 'proof (over-approximating backward data provenance) that no path component of an extracted file comes from an unsanitised member name: sinks are fed by enclosed_name()/file_stem()-derived '
                    'rename values joined onto a TempDir path; the set of fs-mutating call sites in the archive module equals the reviewed set.'
                    ' Added: the volume chain never signals end-of-data with volumes remaining, and repositions a volume reader relatively only when its position is known (rel_pos != 0). Added: a binary search in the archive module compares by the key type the sequence was sorted by (String order is not Path order). Added: extract_to_dir writes a member only after the membership test matched it, or when no filter was requested (an emptied name list is not \'no filter\'). Added: the position cache of the shared archive reader is re-based after every absolute seek (a genuine defect found and repaired, 1866d85); inside the zip member loop a name is reported as extracted only behind the copy of the member bytes in the same iteration. Added: the key of the temp-dir list is the canonical path (or given name) without case folding / trimming.'}

SINK = re.compile(r'^std::fs::(create_dir_all|create_dir|File::create|File::create_new|write|rename|copy|remove_file|remove_dir_all|remove_dir|hard_link|OpenOptions::open|set_permissions)$|^std::os::unix::fs::symlink$')
FORBIDDEN = re.compile(r'ZipFile(::<[^>]*>|<[^>]*>)?::(name|mangled_name|name_raw)$')
UNZIP = 'adlt::utils::unzip::'
REVIEWED = {'adlt::utils::unzip::extract_to_dir': {'std::fs::create_dir_all': 2, 'std::fs::File::create': 1}}


def expand_closures(F, toks, depth=0):
    """a value that flowed through a closure may derive from anything the closure calls"""
    out = set(toks)
    if depth > 3:
        return out
    for t in list(toks):
        if t[0] == 'closure':
            cl = F.get(t[1])
            if cl is not None:
                inner = set()
                for blk in cl.calls():
                    inner.add(('call', blk.term.callee.path))
                for b in cl.blocks:
                    for st in b.stmts:
                        if st.k == 'assign' and st.rv['k'] == 'agg' and st.rv.get('ak') == 'closure':
                            inner.add(('closure', st.rv['closure']))
                out |= expand_closures(F, inner, depth + 1)
    return out


def sink_helpers(F):
    """private functions of the archive module that do the file-system writing for extract_to_dir: called only from
    extract_to_dir (or its closures), every path operand of their sinks derives from their own parameters only (no member-name
    accessor inside).  Returns {helper path: (body, [sink paths], [index of the parameters that reach a sink path], has_copy)}"""
    out = {}
    root = 'adlt::utils::unzip::extract_to_dir'
    for H in F.order:
        if not H.path.startswith(UNZIP) or H.kind == 'closure' or H.path == root or H.crate != 'lib':
            continue
        sinks = [blk for blk in H.calls() if SINK.match(blk.term.callee.path)]
        if not sinks:
            continue
        callers = set()
        for b in F.order:
            if b.crate in ('lib', 'bin'):
                for blk in b.calls():
                    if (blk.term.callee.resolved or blk.term.callee.path) == H.path:
                        callers.add(b.closure_of or b.path)
        if callers != {root}:
            continue
        hcfg = CFG(H)
        hpr = Prov(hcfg)
        pidx = set()
        ok = True
        names = {H.name_of(i) or 'arg%d' % i: i for i in range(1, H.arg_count + 1)}
        for blk in sinks:
            toks = expand_closures(F, hpr.operand(blk.term.args[0], at=blk.i))
            if any(FORBIDDEN.search(c) or c.endswith('::enclosed_name') or c.endswith('Path::join') for c in calls_in(toks)):
                ok = False          # the helper builds paths itself: not a mere writer
            ps = params_in(toks)
            if not ps or any(p not in names for p in ps):
                ok = False
            pidx |= set(names[p] for p in ps if p in names)
        if ok:
            has_copy = any(re.search(r'(::cancelable_copy|std::io::copy|io::Write::write_all)$', blk.term.callee.path) for blk in H.calls())
            out[H.path] = (H, [blk.term.callee.path for blk in sinks], sorted(pidx), has_copy)
    return out


def run(F, chk):
    X1 = chk.rule('X1', 'every fs-mutating sink in extract_to_dir is fed from target_dir.join(enclosed_name | rename value); rename values come from file_stem; target_dir from a TempDir')
    X2 = chk.rule('X2', 'fs-mutating call sites in the archive module are exactly the reviewed ones')
    bodies = [b for b in F.order if b.path.startswith(UNZIP) or (b.closure_of or '').startswith(UNZIP)]
    X2.floor('bodies of the archive module', len(bodies), 20)
    found = {}
    helpers = sink_helpers(F)
    for b in bodies:
        for blk in b.calls():
            p = blk.term.callee.path
            if SINK.match(p):
                root = b.closure_of or b.path
                if root in helpers:
                    root = 'adlt::utils::unzip::extract_to_dir'      # a mere writer called only from there: its sites are extract_to_dir's
                found.setdefault(root, {}).setdefault(p, []).append((b, blk))
    X2.sites += sum(len(v) for d in found.values() for v in d.values())
    for root, d in sorted(found.items()):
        for p, sites in sorted(d.items()):
            X2.fn(root)
            want = REVIEWED.get(root, {}).get(p, 0)
            if len(sites) == want:
                X2.ok(sample={'function': root, 'sink': p, 'sites': [b.loc(blk.term.sp) for (b, blk) in sites]})
            else:
                b, blk = sites[-1]
                X2.violation(('fs-sites', root, p, 'have%d' % len(sites), 'reviewed%d' % want), '%s has %d call site(s) of %s, the reviewed set has %d' % (root, len(sites), p, want), where=b.loc(blk.term.sp))
    for root, d in REVIEWED.items():
        for p, want in d.items():
            if len(found.get(root, {}).get(p, [])) < want:
                X2.violation(('fs-sites-missing', root, p), 'reviewed site of %s in %s not found (anchor lost)' % (p, root))
    # X1 provenance
    ex = F.get('adlt::utils::unzip::extract_to_dir')
    if ex is None:
        X1.violation(('anchor-lost', 'extract_to_dir'), 'extract_to_dir not found')
        return
    cfg = CFG(ex)
    pr = Prov(cfg)
    X1.fn(ex.path)
    n = 0
    for blk in ex.calls():
        p = blk.term.callee.path
        hp = blk.term.callee.resolved or p
        if hp in helpers:
            # the writer helper: the arguments that reach its sinks are the operands to confine
            H_, hsinks, pidx, _hc = helpers[hp]
            n += len(hsinks) - 1
            toks_h = set()
            for i_ in pidx:
                if i_ - 1 < len(blk.term.args):
                    toks_h |= pr.operand(blk.term.args[i_ - 1], at=blk.i)
        elif not SINK.match(p):
            continue
        n += 1
        X1.sites += 1
        toks = expand_closures(F, toks_h if hp in helpers else pr.operand(blk.term.args[0], at=blk.i))
        calls = calls_in(toks)
        params = params_in(toks)
        bad = [c for c in calls if FORBIDDEN.search(c)]
        has_join = any(c.endswith('Path::join') for c in calls)
        has_safe = any(c.endswith('::enclosed_name') for c in calls)
        has_target = 'target_dir' in params
        bad_params = [x for x in params if x not in ('target_dir', 'rename_map', 'source', 'shall_cancel')]
        if not bad and has_join and has_safe and has_target and not bad_params:
            X1.ok(sample={'sink': p, 'at': ex.loc(blk.term.sp), 'params': params, 'name_sources': [c for c in calls if 'ZipFile' in c or 'HashMap' in c or 'Path::' in c][:8]})
        else:
            X1.violation(('unconfined-sink', ex.path, p.split('::')[-1], 'forbidden%d' % len(bad), 'safe%s' % has_safe, 'params_' + '_'.join(bad_params)),
                         'the operand of %s at %s is not confined: forbidden name sources %s, enclosed_name in provenance: %s, joined onto target_dir: %s, other parameters reaching it: %s' %
                         (p, ex.loc(blk.term.sp), bad, has_safe, has_join and has_target, bad_params), where=ex.loc(blk.term.sp))
    X1.floor('fs-mutating sinks in extract_to_dir', n, 3)
    # rename_map inserts and target_dir at call sites
    ncall = 0
    nins = 0
    for b in F.order:
        if b.crate not in ('lib', 'bin'):
            continue
        sites = [blk for blk in b.calls() if blk.term.callee.path == 'adlt::utils::unzip::extract_to_dir']
        inserts = [blk for blk in b.calls() if re.search(r'HashMap::<.*>::insert$', blk.term.callee.path) and 'std::string::String, std::string::String' in (blk.term.args[0].ty or '')]
        if not sites:
            continue
        cfg2 = CFG(b)
        pr2 = Prov(cfg2)
        E2 = ExprBuilder(cfg2)
        for blk in sites:
            ncall += 1
            X1.sites += 1
            X1.fn(b.path)
            toks = pr2.operand(blk.term.args[1], at=blk.i)
            calls = calls_in(toks)
            if any(c.endswith('TempDir::path') or 'tempfile::' in c for c in calls):
                X1.ok(sample={'caller': b.path, 'target_dir': 'TempDir::path()'})
            else:
                X1.violation(('target-dir-not-temp', b.closure_of or b.path), 'extract_to_dir is called at %s with a target directory that does not come from a TempDir (%s)' % (b.loc(blk.term.sp), calls[:6]), where=b.loc(blk.term.sp))
        for blk in inserts:
            if 'rename_map' not in show(E2.operand(blk.term.args[0])):
                continue
            nins += 1
            X1.sites += 1
            toks = pr2.operand(blk.term.args[2], at=blk.i)
            calls = calls_in(toks)
            if any(c.endswith('Path::file_stem') for c in calls) and not any('list_archive' in c for c in calls):
                X1.ok(sample={'rename_map_insert_at': b.loc(blk.term.sp), 'value_from': 'Path::file_stem()'})
            else:
                X1.violation(('rename-value', b.closure_of or b.path), 'a rename_map value inserted at %s does not come (only) from Path::file_stem: %s' % (b.loc(blk.term.sp), calls[:8]), where=b.loc(blk.term.sp))
    X1.floor('call sites of extract_to_dir', ncall, 1)
    X1.floor('rename_map inserts', nins, 1)
    X3 = chk.rule('X3', 'the volume chain never signals end-of-data early: a zero-byte inner read with volumes remaining is retried')
    check_chain_eof(F, X3)
    X4 = chk.rule('X4', 'volume readers are positioned with absolute seeks; a relative seek needs a dominating rel_pos != 0 guard (lazy reset invariant)')
    check_chain_relative_seek(F, X4)
    X5 = chk.rule('X5', 'the loops of extract_to_dir over archive members are left only when exhausted, on an error, or on cancellation')
    check_member_loops(F, X5)
    X6 = chk.rule('X6', 'names reported as extracted are confined: from enclosed_name()/sanitize_destination_path(), or requested names behind a Path::components confinement predicate')
    check_reported_names(F, X6)
    X7 = chk.rule('X7', 'extract_archives leaves an archive entry out of the matching files only on a path that evaluated the glob pattern for it')
    check_member_selection(F, X7)
    X8 = chk.rule('X8', 'archive module: a binary search over a sequence compares by the order the sequence was sorted by (same key type: String order is not Path order)')
    check_lookup_order(F, X8)
    X9 = chk.rule('X9', 'extract_to_dir writes a member only on a path that matched it against the requested names, or where the caller requested no filter at all (None) - an emptied list is not "no filter"')
    check_member_written_only_if_selected(F, X9)
    X12 = chk.rule('X12', 'one temp dir per archive: the key under which extract_archives remembers the temp dir of an archive is its canonical path (or the given name) without case folding or other lossy normalisation (two archives are the same only if their paths are)')
    check_temp_dir_key(F, X12)
    X11 = chk.rule('X11', 'zip extraction: inside the member loop a name is reported as extracted only behind the copy of that member\'s bytes into the freshly created file in the same iteration (an existing file of the same name / size is not the member)')
    check_reported_means_copied(F, X11)
    X10 = chk.rule('X10', 'shared archive reader: a cached position of the inner stream is re-based (pos = target) after every absolute seek of that stream before it is advanced relatively (pos += n) - otherwise a later read at the stale value skips its seek and returns bytes from elsewhere')
    check_position_cache(F, X10)


# ---------------------------------------------------------------------------------------------
# X12: identity of archives

LOSSY_TEXT = re.compile(r'::(to_lowercase|to_uppercase|to_ascii_lowercase|to_ascii_uppercase|make_ascii_lowercase|make_ascii_uppercase|eq_ignore_ascii_case|trim|trim_start|trim_end|trim_matches|trim_start_matches|trim_end_matches|replace|replacen|to_string_lossy_lowercase)$')


def check_temp_dir_key(F, X12):
    """"one temp dir per archive": extract_archives looks an archive up in the list of temp dirs by a text key.  Two different
    archives must never share a key, else the second one finds "its" members already extracted and reports the first one's
    files.  On the way from the archive path to the key (extract_archives and the private functions it calls with a path) no
    case folding / trimming / replacing may happen."""
    b = F.get('adlt::utils::unzip::extract_archives')
    if b is None:
        X12.violation(('anchor-lost', 'extract_archives'), 'extract_archives not found')
        return
    cone = [b] + list(F.closures_of(b.path))
    for blk in b.calls():
        H = F.get(blk.term.callee.resolved) if blk.term.callee.resolved else F.get(blk.term.callee.path)
        if H is not None and H.kind != 'closure' and H.crate == 'lib' and H.path.startswith('adlt::utils::unzip::') and H.ret_type().startswith('std::string::String') and H not in cone:
            cone.append(H)
            cone += list(F.closures_of(H.path))
    n = 0
    canon = 0
    for x in cone:
        X12.fn(x.path)
        for blk in x.calls():
            p = blk.term.callee.path
            if p.endswith('Path::canonicalize') or p.endswith('fs::canonicalize'):
                canon += 1
            if LOSSY_TEXT.search(p):
                n += 1
                X12.sites += 1
                X12.violation(('temp-dir-key-normalised', x.closure_of or x.path, p.split('::')[-1]), '%s applies %s at %s on the way to the key of the temp-dir list: archives whose paths differ only in what is folded away share one temp dir, the second one reports the first one\'s files' %
                              (x.path, p.split('::')[-1], x.loc(blk.term.sp)), where=x.loc(blk.term.sp))
    X12.sites += canon
    X12.floor('canonicalize calls on the way to the temp-dir key', canon, 1)
    if n == 0:
        X12.ok(sample={'key': 'canonical path or given name, verbatim', 'functions': [x.path for x in cone][:6]})


# ---------------------------------------------------------------------------------------------
# X11: reported as extracted = copied in this iteration

def check_reported_means_copied(F, X11):
    """"with contents identical to the archive member": the caller opens what extract_to_dir reports.  Inside the loop over the
    members of the zip archive the only evidence that <target>/<name> holds the member's bytes is that they were just copied
    there.  A push of the name on a path around the copy (file exists already, same size, ..) reports a file whose content
    comes from somewhere else - an earlier archive, another member with an equivalent name.  (The documented shortcut for
    requested names that already exist is taken before the loop and is not touched by this rule.)"""
    from cfg import CFG
    b = F.get('adlt::utils::unzip::extract_to_dir')
    if b is None:
        X11.violation(('anchor-lost', 'extract_to_dir'), 'extract_to_dir not found')
        return
    X11.fn(b.path)
    cfg = CFG(b)
    loops = cfg.loops()
    idx = [blk.i for blk in b.calls() if blk.term.callee.path.endswith('ZipArchive::<R>::by_index') or blk.term.callee.path.endswith('::by_index')]
    X11.floor('zip member accesses (by_index) in extract_to_dir', len(idx), 1)
    member_loops = [lb for hd, lb in loops.items() if any(i in lb for i in idx)]
    if not member_loops:
        X11.violation(('anchor-lost', 'zip member loop'), 'no loop around ZipArchive::by_index found in extract_to_dir')
        return
    lb = min(member_loops, key=len)
    _helpers = sink_helpers(F)
    copies = [blk.i for blk in b.calls() if blk.i in lb and (re.search(r'(::cancelable_copy|std::io::copy|io::Write::write_all)$', blk.term.callee.path)
                                                            or ((blk.term.callee.resolved or blk.term.callee.path) in _helpers and _helpers[blk.term.callee.resolved or blk.term.callee.path][3]))]
    pushes = []
    for blk in b.calls():
        t = blk.term
        if blk.i in lb and t.callee.path.endswith('Vec::<T, A>::push') and t.args and 'PathBuf' in (t.args[0].ty or ''):
            o = cfg.origin_of_operand(t.args[0])
            if o is not None and (b.name_of(o.l) or '') == 'extracted':
                pushes.append(blk)
    X11.floor('reports (extracted.push) inside the zip member loop', len(pushes), 1)
    X11.floor('copies of member bytes inside the zip member loop', len(copies), 1)
    for blk in pushes:
        X11.sites += 1
        # the copy must lie on every path from the loop head to the push: the push is not reachable from the member access without a copy
        reach = set()
        for i in idx:
            if i in lb:
                reach |= cfg.reachable_from(i, avoid=set(copies))
        if blk.i in reach:
            X11.violation(('reported-without-copy', b.path), 'extract_to_dir reports a member as extracted at %s on a path of the member loop that did not copy its bytes in this iteration: the file found under that name can hold other content' % b.loc(blk.term.sp), where=b.loc(blk.term.sp))
        else:
            X11.ok(sample={'report_at': b.loc(blk.term.sp), 'behind': 'copy of the member bytes in the same iteration'})


# ---------------------------------------------------------------------------------------------
# X10: position cache of the shared reader

def check_position_cache(F, X10):
    """"contents identical to the archive member": the zip reader reads members through CloneableSeekableReader, whose Inner
    keeps `pos`, "the position of r", to skip redundant seeks (`if offset != self.pos { r.seek(Start(offset)) }`).  That test
    is only sound while pos really is the position of r: after the seek pos must become `offset` before the bytes read are
    added.  If it keeps its old value, pos drifts away from the stream position; a later request at exactly the stale value
    is served without a seek - from wherever the stream happens to be."""
    from cfg import CFG
    from expr import ExprBuilder, show
    bodies = [b for b in F.order if b.crate == 'lib' and (b.impl_self or '').startswith('adlt::utils::cloneable_seekable_reader::Inner') and b.kind != 'closure']
    X10.floor('methods of the shared reader core (cloneable_seekable_reader::Inner)', len(bodies), 2)
    n = 0
    for b in bodies:
        cfg = CFG(b)
        E = ExprBuilder(cfg, fold_named=True)
        seeks = []
        for blk in b.calls():
            t = blk.term
            if t.callee.path.endswith('io::Seek::seek') and t.args and re.search(r'\(\*self\)\.r\b', show(E.operand(t.args[0]))) and t.d.get('t') is not None:
                seeks.append(blk)
        if not seeks:
            continue
        X10.fn(b.path)
        absolute, relative = set(), set()
        for blk in b.blocks:
            if blk.cleanup:
                continue
            for s_ in blk.stmts:
                if s_.k == 'assign' and show(E.target(s_.place)) == '(*self).pos':
                    e = E.rvalue(s_.rv)
                    se = show(e)
                    if '(*self).pos' in se:
                        relative.add(blk.i)
                    else:
                        absolute.add(blk.i)
        for sk in seeks:
            n += 1
            X10.sites += 1
            region = cfg.reachable_from(sk.term.d['t'], avoid=absolute)
            stale = sorted(x for x in region if x in relative)
            if stale:
                X10.violation(('cached-position-stale-after-seek', b.path), '%s seeks the inner stream at %s and then advances the cached position relatively at %s without having set it to the seek target: '
                              'the cache no longer is the position of the stream, a later read at the stale value skips its seek and returns bytes of another offset' % (b.path, b.loc(sk.term.sp), b.loc(b.blocks[stale[0]].term.sp)), where=b.loc(sk.term.sp))
            else:
                X10.ok(sample={'function': b.path, 'seek_at': b.loc(sk.term.sp), 'cache': 'pos re-based before it is advanced'})
    X10.floor('absolute seeks of the inner stream in the shared reader', n, 1)


# ---------------------------------------------------------------------------------------------
# X3: the chain never signals end-of-data early

def check_chain_eof(F, X3):
    """SeekableChain::read hands out the byte count of ONE inner read.  A zero count means end of data to
    every caller, so a zero-byte inner read (empty volume, volume exactly exhausted) while further volumes
    exist must be retried on the next volume: every `Ok(n)` return of an inner read count is dominated by a
    test of n against 0 whose zero edge can reach the inner read again (loop) or a recursive call."""
    bs = [b for b in F.order if b.path.startswith('<adlt::utils::seekablechain::SeekableChain<') and b.path.endswith('as std::io::Read>::read')]
    X3.floor('SeekableChain::read', len(bs), 1)
    for b in bs:
        X3.fn(b.path)
        cfg = CFG(b)
        E = ExprBuilder(cfg, fold_named=True)
        inner = [blk.i for blk in b.calls() if blk.term.callee.path == 'std::io::Read::read']
        X3.floor('inner Read::read calls in SeekableChain::read', len(inner), 1)
        if not inner:
            continue
        recursive = [blk.i for blk in b.calls() if (blk.term.callee.resolved or blk.term.callee.path) == b.path or
                     (blk.term.callee.path == 'std::io::Read::read' and 'SeekableChain' in (blk.term.args[0].ty or ''))]
        recursive = [r for r in recursive if r not in inner or 'SeekableChain' in (b.blocks[r].term.args[0].ty or '')]
        inner = [i for i in inner if 'SeekableChain' not in (b.blocks[i].term.args[0].ty or '')]
        # returns of the inner count
        rets = []
        for blk in b.blocks:
            if blk.cleanup:
                continue
            for s in blk.stmts:
                if s.k == 'assign' and s.place.is_local and s.place.l == 0 and s.rv['k'] == 'agg' and s.rv.get('variant') == 'Ok':
                    e = E.rvalue(s.rv)
                    if 'Read::read(' in show(e):
                        rets.append((blk, s, e))
        X3.floor('returns of the inner read count', len(rets), 1)
        # zero tests of the inner count
        tests = []
        for blk in b.blocks:
            if blk.cleanup or blk.term.k != 'switch':
                continue
            c, t = guards.normalise(E.switch_cond(blk), True) if True else (None, None)
            if isinstance(c, tuple) and c[0] == 'bin' and c[1] in ('Eq', 'Ne', 'Gt', 'Lt', 'Ge', 'Le') and 'Read::read(' in show(c) and (c[2] == ('const', 0) or c[3] == ('const', 0)):
                tests.append(blk)
        for (blk, s, e) in rets:
            X3.sites += 1
            ok = False
            for tb in tests:
                if not cfg.dominates(tb.i, blk.i):
                    continue
                for succ in cfg.succ[tb.i]:
                    r = cfg.reachable_from(succ)
                    if any(i in r for i in inner) and cfg.dominates(inner[0], tb.i) and any(cfg.dominates(x, inner[0]) and x in r for x in r) and \
                            any(i in r for i in inner):
                        # loop back to the inner read
                        if inner[0] in r:
                            ok = True
                    if any(rc in r for rc in recursive):
                        ok = True
            if ok:
                X3.ok(sample={'return_at': b.loc(s.sp), 'zero_count_is_retried_on_the_next_volume': True})
            else:
                X3.violation(('early-eof', b.path), 'SeekableChain::read returns the count of a single inner read at %s without retrying when that count is 0 while volumes remain: an empty (or exactly exhausted) volume makes the chain signal end-of-data early' % b.loc(s.sp),
                             where=b.loc(s.sp))


# ---------------------------------------------------------------------------------------------
# X4: lazy volume reset - a volume reader's position is only known when rel_pos != 0

def check_chain_relative_seek(F, X4):
    """SeekableChain resets a volume's reader lazily (`if rel_pos == 0 { reader.seek(Start(0)) }` at the next read), so
    while rel_pos == 0 the position of the current volume's reader is unknown (stale from an earlier visit).  Hence a
    *relative* seek on a volume reader (SeekFrom::Current / seek_relative / stream_position arithmetic) is only sound under
    a dominating `rel_pos != 0` guard; absolute seeks (SeekFrom::Start) are always fine."""
    bs = [b for b in F.order if 'adlt::utils::seekablechain::SeekableChain' in b.path and b.crate == 'lib']
    X4.floor('SeekableChain bodies', len(bs), 3)
    n_abs = 0
    for b in bs:
        cfg = CFG(b)
        E = ExprBuilder(cfg, fold_named=True)
        for blk in b.calls():
            t = blk.term
            p = t.callee.path
            a0 = (t.args[0].ty or '') if t.args else ''
            if 'SeekableChain' in a0:
                continue   # calls on the chain itself
            rel = None
            if p.endswith('Seek::seek') and len(t.args) > 1:
                arg = show(E.operand(t.args[1]))
                if 'SeekFrom::Start' in arg:
                    n_abs += 1
                    continue
                if 'SeekFrom::End' in arg:
                    continue
                rel = 'seek(%s)' % arg[:40]
            elif p.endswith('Seek::seek_relative') or p.endswith('::seek_relative'):
                rel = 'seek_relative'
            if rel is None:
                continue
            X4.sites += 1
            X4.fn(b.path)
            ok = False
            for (c, truth, D) in guards.known(cfg, E, blk.i):
                sc = show(c)
                if 'rel_pos' in sc and ((sc.startswith('Ne(') and sc.endswith(', 0)') and truth is True) or (sc.startswith('Eq(') and sc.endswith(', 0)') and truth is False) or
                                        (sc.startswith('Gt(') and sc.endswith(', 0)') and truth is True)):
                    ok = True
            if ok:
                X4.ok(sample={'function': b.path, 'relative_seek_at': b.loc(t.sp), 'guard': 'rel_pos != 0'})
            else:
                X4.violation(('relative-seek-on-unknown-position', b.path, rel.split('(')[0]),
                             '%s performs a relative seek (%s) on a volume reader at %s without a dominating `rel_pos != 0` guard: after a switch to the next volume the reader still sits at a stale offset (it is only reset lazily at the next read), '
                             'so the chain no longer behaves like the concatenated file' % (b.path, rel, b.loc(t.sp)), where=b.loc(t.sp))
    X4.floor('absolute seeks (SeekFrom::Start) on volume readers', n_abs, 2)
    if X4.obligations == X4.discharged and not any(v for v in X4.violations):
        X4.ok(sample={'relative_seeks_on_volume_readers': X4.sites, 'absolute_seeks': n_abs})


# ---------------------------------------------------------------------------------------------
# X5: the member loops visit every member

def check_member_loops(F, X5):
    """"exactly the matching members are extracted and reported": the loops of extract_to_dir that walk the archive members
    (and the list of requested names) may only be left when their iterator is exhausted, through an error (`?`), or
    through the cancellation flag.  Any other exit stops looking at the remaining members."""
    n = 0
    for b in F.order:
        if b.crate != 'lib' or b.kind == 'closure' or not b.path.startswith('adlt::utils::unzip::extract_to_dir'):
            continue
        cfg = CFG(b)
        E = ExprBuilder(cfg, fold_named=True)
        X5.fn(b.path)
        for hd, lb in cfg.loops().items():
            nxt = [x for x in lb if b.blocks[x].term.k == 'call' and b.blocks[x].term.callee.path.endswith('Iterator::next')]
            if not nxt:
                continue
            n += 1
            for x in sorted(lb):
                for y in cfg.succ[x]:
                    if y in lb or b.blocks[y].term.k == 'unreachable':
                        continue
                    X5.sites += 1
                    kind = None
                    for (c, truth, D) in guards.known(cfg, E, y):
                        if D != x:
                            continue
                        sc = show(c)
                        if sc.startswith('discr(Iterator::next(') and truth in (False, ('eq', 0)):
                            kind = 'iterator exhausted'
                        elif ('Atomic::load(' in sc or 'AtomicBool::load(' in sc) and truth is True:
                            kind = 'cancelled'
                        elif sc.startswith('discr(Try::branch(') and truth in (True, ('eq', 1)):
                            kind = 'error propagated'
                    if kind is None and b.blocks[x].term.k == 'call' and 'from_residual' in b.blocks[x].term.callee.path:
                        kind = 'error propagated'
                    if kind:
                        X5.ok(sample={'loop_head': hd, 'exit_at': b.loc(b.blocks[x].term.sp), 'reason': kind})
                    else:
                        X5.violation(('member-loop-left-early', b.path), 'the member loop of %s can be left at %s for a reason other than {all members visited, error, cancelled}: members behind that point are neither extracted nor reported' %
                                     (b.path, b.loc(b.blocks[x].term.sp)), where=b.loc(b.blocks[x].term.sp))
    X5.floor('member / request loops in extract_to_dir', n, 2)


# ---------------------------------------------------------------------------------------------
# X6: only confined names are reported as extracted

def check_reported_names(F, X6):
    """extract_to_dir returns the names it "extracted"; the caller joins them onto the temp dir and opens them.  A name
    pushed into that result must therefore be as confined as a name that is written: it derives from
    enclosed_name()/sanitize_destination_path(), or - when it comes from the caller's list of requested (raw member)
    names - the push is dominated by the true edge of a confinement predicate on that name (a function of the archive
    module that inspects `Path::components`).  Otherwise a member called `../x` is reported as extracted as soon as a
    file `<tempdir>/../x` happens to exist, and adlt opens that host file."""
    ex = F.get('adlt::utils::unzip::extract_to_dir')
    if ex is None:
        X6.violation(('anchor-lost', 'extract_to_dir'), 'extract_to_dir not found')
        return
    cfg = CFG(ex)
    pr = Prov(cfg)
    E = ExprBuilder(cfg, fold_named=True)
    X6.fn(ex.path)
    preds = set()
    for b in F.order:
        if b.crate == 'lib' and b.path.startswith(UNZIP) and b.kind != 'closure' and b.ret_type() == 'bool':
            bodies = [b] + list(F.closures_of(b.path))
            if any(x.term.callee.path.endswith('Path::components') for y in bodies for x in y.calls()):
                preds.add(b.path)
    n = 0
    for blk in ex.calls():
        t = blk.term
        if not (re.search(r'Vec::<T, A>::push$', t.callee.path) and 'PathBuf' in (t.args[0].ty or '')):
            continue
        n += 1
        X6.sites += 1
        toks = expand_closures(F, pr.operand(t.args[1], at=blk.i))
        calls = calls_in(toks)
        params = params_in(toks)
        safe = any(c.endswith('::enclosed_name') or c.endswith('sanitize_destination_path') for c in calls)
        raw = [x for x in params if x not in ('target_dir', 'source', 'shall_cancel')]
        guarded = None
        for (c, truth, D) in guards.known(cfg, E, blk.i):
            if truth is True and isinstance(c, tuple) and c[0] == 'call' and c[1] in preds:
                guarded = c[1]
        if safe and not any(FORBIDDEN.search(c) for c in calls):
            X6.ok(sample={'reported_at': ex.loc(t.sp), 'name_from': 'enclosed_name()/sanitize_destination_path()'})
        elif guarded:
            X6.ok(sample={'reported_at': ex.loc(t.sp), 'name_from': 'requested names (%s)' % ', '.join(raw), 'behind': guarded})
        else:
            X6.violation(('unconfined-name-reported', ex.path, '_'.join(sorted(raw)) or 'x'),
                         'extract_to_dir reports a name as extracted at %s that comes from %s without passing enclosed_name()/a confinement predicate: a member name such as `../x` is reported (and then opened by the caller) '
                         'when that path exists outside the temporary directory' % (ex.loc(t.sp), ', '.join(raw) or 'an unconfined source'), where=ex.loc(t.sp))
    X6.floor('pushes into the result of extract_to_dir', n, 2)


# ---------------------------------------------------------------------------------------------
# X7: a member is rejected only by the pattern

def check_member_selection(F, X7):
    """"exactly the members that match the requested pattern": in the selection loop of extract_archives an archive entry is
    left out (the iteration ends without pushing it to the list of matching files) only on a path on which the glob
    `Pattern::matches` was evaluated for it - or which found the entry equal to the pattern text and then excluded it as a
    directory.  A shortcut that skips the matcher for some patterns (e.g. "no * or ?") deselects members that do match."""
    from paths import Explorer
    n = 0
    for b in F.order:
        if b.crate != 'lib' or b.kind == 'closure' or not b.path.startswith('adlt::utils::unzip::extract_archives'):
            continue
        cfg = CFG(b)
        E = ExprBuilder(cfg, fold_named=True)
        X7.fn(b.path)
        pushes = [blk.i for blk in b.calls() if re.search(r'Vec::<T, A>::push$', blk.term.callee.path) and 'std::string::String' in (blk.term.args[0].ty or '') and
                  'matching_files' in show(ExprBuilder(cfg).operand(blk.term.args[0]))]
        matchers = set(blk.i for blk in b.calls() if re.search(r'glob::Pattern::matches\w*$', blk.term.callee.path))
        # the predicate may be a local closure / helper (`let selected_by_glob = |name| name == glob.as_str() || glob.matches(name)`)
        for blk in b.calls():
            tgt = F.get(blk.term.callee.resolved) if blk.term.callee.resolved else None
            if tgt is None:
                tgt = F.get(blk.term.callee.path)
            if tgt is not None and tgt.path != b.path and (tgt.closure_of == b.path or tgt.path.startswith(UNZIP)) and \
                    any(re.search(r'glob::Pattern::matches\w*$', x.term.callee.path) for x in tgt.calls()):
                matchers.add(blk.i)
                X7.fn(tgt.path)
        for hd, lb in cfg.loops().items():
            nxt = [x for x in lb if b.blocks[x].term.k == 'call' and b.blocks[x].term.callee.path.endswith('Iterator::next')]
            lp = [p for p in pushes if p in lb]
            if not nxt or not lp or not (matchers & lb):
                continue
            n += 1
            X7.sites += 1
            nb = nxt[0]

            def block_effect(blk, facts, nb=nb, lb=lb):
                if blk.i == nb:
                    return frozenset(f for f in facts if f[0] != 'verdict')
                if blk.i in matchers or blk.i in lp:
                    return frozenset(facts | {('verdict',)})
                return facts

            def edge_effect(blk, tgt, facts):
                # `entry == pattern` true edge followed by the directory exclusion is a verdict too
                if blk.term.k == 'switch':
                    sc = show(E.switch_cond(blk))
                    if 'str::ends_with' in sc or 'ends_with(' in sc:
                        return frozenset(facts | {('verdict',)})
                return facts
            from paths import partial_flags
            ex = Explorer(cfg, block_effect=block_effect, edge_effect=edge_effect, var_roots=set(), extra_flags=partial_flags(cfg))
            ex.run()
            X7.paths += ex.n_states
            # states arriving at the loop's next() from inside the loop (back edges)
            bad = None
            for p in cfg.pred[nb]:
                if p not in lb:
                    continue
                for st in ex.out_states.get(p, ()):
                    facts_on_edge = edge_effect(b.blocks[p], nb, st[1])
                    if ('verdict',) not in facts_on_edge:
                        bad = (p, st)
            if bad is None:
                X7.ok(sample={'selection_loop_head': hd, 'an_entry_is_left_out_only_after': 'Pattern::matches (or the directory exclusion)'})
            else:
                X7.violation(('member-rejected-without-matching', b.path), 'in %s an archive entry can be left out of the matching files on a path that never evaluates the glob pattern for it: members that match the requested '
                             'pattern are not extracted' % b.path, where=b.loc(b.blocks[bad[0]].term.sp))
    X7.floor('member selection loops using glob::Pattern::matches', n, 1)


# ---------------------------------------------------------------------------------------------
# X8: a sorted lookup uses the order of the sort

ORDER_EQ = {'std::string::String': 'str', 'std::path::PathBuf': 'std::path::Path', 'std::ffi::OsString': 'std::ffi::OsStr', 'std::vec::Vec<u8>': '[u8]'}


def _norm_key_ty(t):
    t = (t or '').strip()
    while t.startswith('&'):
        t = t[1:].lstrip()
        if t.startswith("'"):
            t = t.split(' ', 1)[1] if ' ' in t else t
        if t.startswith('mut '):
            t = t[4:]
    t = re.sub(r'^std::borrow::Cow<\'?\w*,? ?(.*)>$', r'\1', t)
    return ORDER_EQ.get(t, t)


def _cmp_key_types(F, body, closure_operand):
    """key types compared inside a comparator closure: the self type of the Ord::cmp / PartialOrd::partial_cmp calls in it"""
    import comparators
    cl = comparators.closure_path_of(F, body, closure_operand)
    if cl is None:
        return None
    out = set()
    for blk in cl.calls():
        p = blk.term.callee.path
        if p in ('std::cmp::Ord::cmp', 'std::cmp::PartialOrd::partial_cmp') or p.endswith('::cmp'):
            if blk.term.args:
                out.add(_norm_key_ty(blk.term.args[0].ty))
    return out


def _elem_ty(recv_ty):
    m = re.match(r'&(?:mut )?(?:std::vec::Vec<(.*)>|\[(.*)\]|std::collections::VecDeque<(.*)>)$', recv_ty or '')
    if not m:
        return None
    return next(g for g in m.groups() if g)


def check_lookup_order(F, X8):
    """"selects exactly the members whose name matches": a member is looked up among the requested names.  When that lookup is
    a binary search, the comparator must induce the order the sequence was sorted by - for names this matters: `String`
    order is byte-wise, `Path` order is component-wise (`logs-old/a` vs `logs/a` differ), so a sequence sorted as strings
    and searched as paths (or vice versa) misses entries that are present.  Per function (with its closures) of the archive
    module: the key type compared by every binary_search_by / partition_point closure over elements T must be the key type
    of a sort of a T-sequence in the same function (natural `sort()` = T itself)."""
    bodies = [b for b in F.order if b.crate == 'lib' and b.path.startswith('adlt::utils::unzip::') and '::tests::' not in b.path and b.kind != 'closure']
    X8.floor('functions of the archive module', len(bodies), 8)
    n = 0
    for f in bodies:
        group = [f] + list(F.closures_of(f.path))
        sorts = {}     # element type -> set of key types
        lookups = []
        for b in group:
            for blk in b.calls():
                t = blk.term
                p = t.callee.path
                m = re.search(r'::(sort|sort_unstable|sort_by|sort_unstable_by|sort_by_key|sort_unstable_by_key|sort_by_cached_key|binary_search|binary_search_by|binary_search_by_key|partition_point)$', p)
                if not m or not t.args:
                    continue
                el = _elem_ty(t.args[0].ty)
                if el is None:
                    continue
                k = m.group(1)
                if k in ('sort', 'sort_unstable'):
                    sorts.setdefault(el, set()).add(_norm_key_ty(el))
                elif k.startswith('sort'):
                    if 'key' in k:
                        cl = None
                        import comparators
                        cl = comparators.closure_path_of(F, b, t.args[1]) if len(t.args) > 1 else None
                        if cl is not None:
                            sorts.setdefault(el, set()).add(_norm_key_ty(cl.ret_type()))
                    else:
                        ks = _cmp_key_types(F, b, t.args[1]) if len(t.args) > 1 else None
                        for x in (ks or ()):
                            sorts.setdefault(el, set()).add(x)
                elif k == 'binary_search':
                    lookups.append((b, blk, el, {_norm_key_ty(el)}))
                elif k == 'binary_search_by_key':
                    import comparators
                    cl = comparators.closure_path_of(F, b, t.args[-1])
                    lookups.append((b, blk, el, {_norm_key_ty(cl.ret_type())} if cl is not None else None))
                else:
                    lookups.append((b, blk, el, _cmp_key_types(F, b, t.args[1]) if len(t.args) > 1 else None))
        for (b, blk, el, keys) in lookups:
            n += 1
            X8.sites += 1
            X8.fn(f.path)
            sk = sorts.get(el, set())
            if keys is not None and keys and keys <= sk:
                X8.ok(sample={'lookup_at': b.loc(blk.term.sp), 'compares_by': sorted(keys), 'sequence_sorted_by': sorted(sk)})
            else:
                X8.violation(('lookup-order', f.path, ','.join(sorted(x.split('::')[-1] for x in (keys or ['?'])))), '%s searches a sequence of %s at %s with a comparator over %s, but the sequence is sorted by %s in this function: '
                             'an order that differs from the sort order (String is byte-wise, Path is component-wise) makes the binary search miss members that are present - they are silently not extracted' %
                             (f.path, el, b.loc(blk.term.sp), sorted(keys or ['?']), sorted(sk) or 'nothing'), where=b.loc(blk.term.sp))
    X8.ok(sample={'sorted_lookups_in_the_archive_module': n, 'note': 'membership tests are linear scans today; the rule arms itself with the first binary search'}) if n == 0 else None


# ---------------------------------------------------------------------------------------------
# X9: a member is written only if selected

def check_member_written_only_if_selected(F, X9):
    """"selects exactly the members whose name matches": when names are requested, the already extracted ones are taken off the list
    first - the list can become empty, which must mean "nothing left to extract", never "no filter".  For every fs-writing call
    inside the member loops of extract_to_dir, every path that reaches it has (a) crossed the true edge of the membership test
    (`names.iter().any(..)` - or a private predicate that is true only for a match or for filter == None) in this iteration, or
    (b) started with the None edge of the `files_filter` parameter itself."""
    from paths import Explorer, place_key
    from facts import Place as Pl, Operand as Op
    b = F.get('adlt::utils::unzip::extract_to_dir')
    if b is None:
        X9.violation(('anchor-lost', 'extract_to_dir'), 'extract_to_dir not found')
        return
    X9.fn(b.path)
    cfg = CFG(b)
    E = ExprBuilder(cfg)
    EF = ExprBuilder(cfg, fold_named=True)
    param = None
    for i, t in enumerate(b.arg_types(), start=1):
        if t.startswith('std::option::Option<') and 'String' in t:
            param = i
    if param is None:
        X9.violation(('anchor-lost', 'files_filter parameter'), 'extract_to_dir has no Option<..String..> parameter')
        return
    pname = b.name_of(param) or 'arg%d' % param
    loops = cfg.loops()
    # membership tests: Iterator::any over String items, or a crate predicate fn(Option<&[String]>, ..) -> bool that is selective
    any_blocks = {}
    for blk in b.calls():
        t = blk.term
        if t.callee.path.endswith('Iterator::any') and t.args and 'String' in (t.args[0].ty or ''):
            any_blocks[blk.i] = 'any'
        else:
            H = F.get(t.callee.resolved) if t.callee.resolved else F.get(t.callee.path)
            if H is not None and H.kind != 'closure' and H.crate == 'lib' and H.ret_type() == 'bool' and any('Option<&[std::string::String]>' in (a.ty or '') or ('Option<' in (a.ty or '') and 'String' in (a.ty or '')) for a in t.args):
                if selective_predicate(F, H):
                    any_blocks[blk.i] = H.path
                    X9.fn(H.path)
    _helpers = sink_helpers(F)
    sinks = [blk.i for blk in b.calls() if (re.search(r'^std::fs::(File::create|create_dir_all|create_dir|write)$', blk.term.callee.path) or (blk.term.callee.resolved or blk.term.callee.path) in _helpers)
             and any(blk.i in lb for lb in loops.values())]
    X9.floor('fs-writing calls inside the member loops of extract_to_dir', len(sinks), 2)
    X9.floor('membership tests in extract_to_dir', len(any_blocks), 1)
    heads = set(h for h, lb in loops.items() if any(a in lb for a in any_blocks))

    def block_effect(blk, facts):
        if blk.i in heads:
            facts = frozenset(f for f in facts if f != ('matched',))
        # `let wanted = match &filter { Some(names) => names.iter().any(..), None => true }`: which definition of the bool arrives
        for s in blk.stmts:
            if s.k == 'assign' and s.place.is_local and not s.place.p and b.lty(s.place.l) == 'bool' and any(f[0] == 'anyres' and f[1] == s.place.l for f in facts):
                facts = frozenset(f for f in facts if not (f[0] == 'anyres' and f[1] == s.place.l))
        if blk.i in any_blocks and blk.term.k == 'call' and blk.term.dest.is_local and not blk.term.dest.p:
            facts = frozenset(facts | {('anyres', blk.term.dest.l)})
        for s in blk.stmts:
            if s.k == 'assign' and s.place.is_local and not s.place.p and s.rv['k'] == 'agg' and (s.rv.get('adt') or '').endswith('option::Option') and s.rv.get('variant') in ('Some', 'None'):
                k = place_key(s.place)
                facts = frozenset([f for f in facts if not (f[0] == 'var' and f[1] == k)] + [('var', k, 1 if s.rv['variant'] == 'Some' else 0)])
        return facts

    def edge_effect(blk, tgt, facts):
        if blk.term.k != 'switch':
            return facts
        c = E.switch_cond(blk)
        # the request: discriminant of the parameter itself
        if isinstance(c, tuple) and c[0] == 'discr' and c[1] == ('place', pname):
            for v, t_ in blk.term.d['vals']:
                if t_ == tgt and v == 0:
                    return frozenset(facts | {('req_none',)})
            if blk.term.d['otherwise'] == tgt and [v for v, _ in blk.term.d['vals']] == [1]:
                return frozenset(facts | {('req_none',)})
            return facts
        # the membership test
        d = Op(blk.term.d['d'])
        if d.place is not None and d.place.is_local:
            sd = cfg.single_def(d.place.l)
            neg = False
            for _ in range(3):
                if sd is not None and sd[1] != 'call' and sd[2].rv['k'] == 'un' and sd[2].rv['op'] == 'Not' and Op(sd[2].rv['a']).place is not None:
                    neg = not neg
                    sd = cfg.single_def(Op(sd[2].rv['a']).place.l)
                elif sd is not None and sd[1] != 'call' and sd[2].rv['k'] == 'use' and Op(sd[2].rv['o']).place is not None and Op(sd[2].rv['o']).place.is_local:
                    sd = cfg.single_def(Op(sd[2].rv['o']).place.l)
            base = d.place.l
            neg2 = False
            for _ in range(4):
                sdb = cfg.single_def(base)
                if sdb is not None and sdb[1] != 'call' and sdb[2].rv['k'] == 'un' and sdb[2].rv['op'] == 'Not' and Op(sdb[2].rv['a']).place is not None and not Op(sdb[2].rv['a']).place.p:
                    neg2 = not neg2
                    base = Op(sdb[2].rv['a']).place.l
                elif sdb is not None and sdb[1] != 'call' and sdb[2].rv['k'] == 'use' and Op(sdb[2].rv['o']).place is not None and Op(sdb[2].rv['o']).place.is_local and not Op(sdb[2].rv['o']).place.p:
                    base = Op(sdb[2].rv['o']).place.l
                else:
                    break
            if ('anyres', base) in facts and not (sd is not None and sd[1] == 'call' and sd[0] in any_blocks):
                for v, t_ in blk.term.d['vals']:
                    if t_ == tgt and bool(v) != neg2:
                        return frozenset(facts | {('matched',)})
                if blk.term.d['otherwise'] == tgt and [v for v, _ in blk.term.d['vals']] == [0] and not neg2:
                    return frozenset(facts | {('matched',)})
            if sd is not None and sd[1] == 'call' and sd[0] in any_blocks:
                for v, t_ in blk.term.d['vals']:
                    if t_ == tgt and bool(v) != neg:
                        return frozenset(facts | {('matched',)})
                if blk.term.d['otherwise'] == tgt and [v for v, _ in blk.term.d['vals']] == [0] and not neg:
                    return frozenset(facts | {('matched',)})
        return facts
    ex = Explorer(cfg, block_effect=block_effect, edge_effect=edge_effect, var_roots=None)
    ex.run()
    X9.paths += ex.n_states
    for sk in sinks:
        X9.sites += 1
        bad = [st for st in ex.states.get(sk, ()) if ('matched',) not in st[1] and ('req_none',) not in st[1]]
        if bad:
            X9.violation(('member-written-unselected', b.path), 'extract_to_dir can reach the file-system write at %s for a member that was not matched against the requested names although names were requested '
                         '(e.g. the list of names still to extract became empty and is then taken for "no filter"): members that were not asked for are extracted and reported' % b.loc(b.blocks[sk].term.sp),
                         where=b.loc(b.blocks[sk].term.sp), witness={'block_path': ex.witness(sk, bad[0])[-40:]})
        else:
            X9.ok(sample={'write_at': b.loc(b.blocks[sk].term.sp), 'only_after': 'membership test true, or request without filter'})


def selective_predicate(F, H):
    """fn(filter: Option<..>, name) -> bool: every definition of the result is the value of `any(..)` over the names, or `true` behind
    the None edge of the filter parameter, or `false`"""
    cfg = CFG(H)
    E = ExprBuilder(cfg, fold_named=True)
    E0 = ExprBuilder(cfg)
    pn = [H.name_of(i) or 'arg%d' % i for i, t in enumerate(H.arg_types(), start=1) if 'Option<' in t]
    ok = False
    for (bi, si, d) in cfg.defs.get(0, []):
        if si == 'call':
            if not d.callee.path.endswith('Iterator::any'):
                return False
            ok = True
            continue
        v = E.rvalue(d.rv)
        if v == ('const', 0):
            continue
        if v == ('const', 1):
            under_none = False
            for (c, truth, D) in guards.known(cfg, E0, bi):
                if isinstance(c, tuple) and c[0] == 'discr' and isinstance(c[1], tuple) and c[1][0] == 'place' and c[1][1] in pn and (truth in (False, ('eq', 0)) or (isinstance(truth, tuple) and truth[0] == 'ne' and 1 in truth[1])):
                    under_none = True
            if not under_none:
                return False
            continue
        if isinstance(v, tuple) and v[0] == 'call' and v[1].endswith('Iterator::any'):
            ok = True
            continue
        return False
    return ok
