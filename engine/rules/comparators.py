"""O1: comparator totality lint.  A two-argument comparator (closure given to sort_by & friends, or
an Ord::cmp impl) is *key-based* when every value it can return is produced by
cmp/partial_cmp/then/then_with/reverse/... applied to one expression of the first argument and the
*same* expression of the second (possibly swapped = reversed order).  A key-based comparator is a
total preorder by construction; one that returns constant Less/Greater out of a relation between
the two elements is not necessarily one (std's sort may panic or misorder)."""
import re
from cfg import CFG
from expr import ExprBuilder, show, walk
from facts import Operand, Place

SORT_CALLEES = re.compile(r'::(sort_by|sort_unstable_by|max_by|min_by|is_sorted_by|dedup_by|partition_point|select_nth_unstable_by)$')
# these take a one-argument *key* function: the order is the Ord of the key type, total by construction
KEY_CALLEES = re.compile(r'::(sort_by_key|sort_by_cached_key|sort_unstable_by_key|max_by_key|min_by_key|is_sorted_by_key|binary_search_by_key)$')
BSEARCH = re.compile(r'::(binary_search_by)$')
CMP_CALLS = ('std::cmp::Ord::cmp', 'std::cmp::PartialOrd::partial_cmp')
COMBINATORS = ('std::cmp::Ordering::then', 'std::cmp::Ordering::then_with', 'std::cmp::Ordering::reverse',
               'std::option::Option::<T>::unwrap', 'std::option::Option::<T>::unwrap_or', 'std::option::Option::<T>::expect',
               'std::cmp::Reverse', 'std::option::Option::<T>::unwrap_or_else')


def find_comparators(F, where=None):
    """returns list of (kind, body, user(body,callee,loc)) for 2-arg comparators and bsearch closures"""
    out = []
    for b in F.order:
        for blk in b.calls():
            t = blk.term
            path = t.callee.path
            m2 = SORT_CALLEES.search(path)
            m1 = BSEARCH.search(path)
            m3 = KEY_CALLEES.search(path)
            if m3:
                for a in t.args:
                    if '{closure@' in (a.ty or ''):
                        cl = closure_path_of(F, b, a)
                        if cl is not None:
                            out.append(('key', cl, (b, path, b.loc(t.sp))))
                continue
            if not (m1 or m2):
                continue
            # closure argument: an operand whose type is a closure
            cfg = None
            for a in t.args:
                ty = a.ty or ''
                if '{closure@' in ty:
                    cl = closure_path_of(F, b, a)
                    if cl is not None:
                        out.append(('bsearch' if m1 else 'cmp2', cl, (b, path, b.loc(t.sp))))
    for b in F.order:
        if b.impl_trait == 'std::cmp::Ord' and b.path.endswith('::cmp'):
            out.append(('ord', b, (b, 'impl Ord', b.loc(None))))
    if where is not None:
        out = [x for x in out if where(x[1]) or where(x[2][0])]
    return out


def closure_path_of(F, body, operand):
    """find the closure body for an operand of closure type (by matching the closure's source span in its type string)"""
    ty = operand.ty or ''
    m = re.search(r'\{closure@([^:]+):(\d+):(\d+)', ty)
    if not m:
        return None
    f, l = m.group(1), int(m.group(2))
    root = body.closure_of or body.path
    cands = [c for c in F.closures_of(root) if c.line == l and c.file.endswith(f)]
    if len(cands) >= 1:
        col = int(m.group(3))
        for c in cands:
            if c.d['span'].get('c') == col - 1 or c.d['span'].get('c') == col:
                return c
        return cands[0]
    return None


def classify(body, kind):
    """returns (ok, detail)"""
    if kind == 'key':
        rt = body.ret_type()
        if re.search(r'\b(f32|f64)\b', rt):
            return False, 'key function returning %s (no total order)' % rt
        return True, 'key function (one argument) returning %s: ordered by the Ord of the key' % rt
    cfg = CFG(body)
    E = ExprBuilder(cfg, fold_named=True)      # `match a.k.cmp(&b.k) { Equal => .., ord => ord }`: `ord` is the cmp result
    # argument names
    first = 2 if body.kind == 'closure' else 1
    a1 = body.name_of(first) or 'arg%d' % first
    a2 = body.name_of(first + 1) or 'arg%d' % (first + 1) if body.arg_count >= first + 1 else None
    defs = []
    for b in body.blocks:
        if b.cleanup:
            continue
        for s in b.stmts:
            if s.k == 'assign' and s.place.is_local and s.place.l == 0:
                defs.append(E.rvalue(s.rv))
        if b.term.k == 'call' and b.term.dest.is_local and b.term.dest.l == 0:
            t = b.term
            defs.append(('call', t.callee.path, tuple(E.operand(a) for a in t.args)))
    if not defs:
        return False, 'no return definition found'
    details = []
    ok_all = True
    for d in defs:
        ok, why = ordering_expr_ok(d, a1, a2, kind)
        details.append(why)
        if not ok:
            ok_all = False
    return ok_all, '; '.join(details)


def mirror(e, a1, a2):
    """rename the two argument names to '#'"""
    if not isinstance(e, tuple):
        return e
    if e[0] == 'place':
        nm = e[1]
        if nm in (a1, a2):
            return ('place', '#') + tuple(e[2:])
        return e
    return tuple(mirror(x, a1, a2) if isinstance(x, tuple) else x for x in e)


def mentions(e, name):
    return any(isinstance(x, tuple) and x[0] == 'place' and x[1] == name for x in walk(e))


def strip(e):
    while isinstance(e, tuple) and e[0] in ('ref', 'cast'):
        e = e[1]
    # drop leading deref of refs to compare a.x with (*b).x
    return e


def norm_place(e):
    """remove refs and '*' projections and flatten nested projections so that auto-deref
    differences do not matter"""
    if not isinstance(e, tuple):
        return e
    if e[0] == 'ref':
        return norm_place(e[1])
    if e[0] == 'place':
        return ('place', e[1]) + tuple(p for p in e[2:] if p != '*')
    if e[0] == 'proj':
        inner = norm_place(e[1])
        projs = tuple(p for p in e[2:] if p != '*')
        if not projs:
            return inner
        if inner[0] == 'proj':
            return ('proj', inner[1]) + tuple(inner[2:]) + projs
        if inner[0] == 'place':
            return inner + projs
        return ('proj', inner) + projs
    return tuple(norm_place(x) if isinstance(x, tuple) else x for x in e)


def ordering_expr_ok(e, a1, a2, kind):
    e = strip(e)
    if not isinstance(e, tuple):
        return False, 'opaque'
    if e[0] == 'call':
        path = e[1]
        args = e[2]
        if path in CMP_CALLS:
            x, y = norm_place(strip(args[0])), norm_place(strip(args[1]))
            if kind == 'bsearch':
                return True, 'cmp(%s, %s)' % (show(x), show(y))
            if a2 is None:
                return False, 'one-argument comparator'
            mx, my = mirror(x, a1, a2), mirror(y, a1, a2)
            uses_both = (mentions(x, a1) and mentions(y, a2)) or (mentions(x, a2) and mentions(y, a1))
            if mx == my and uses_both and not (mentions(x, a1) and mentions(x, a2)) and not (mentions(y, a1) and mentions(y, a2)):
                return True, 'cmp on key %s' % show(mx)
            return False, 'cmp(%s, %s) is not the same key of both arguments' % (show(x), show(y))
        if path in COMBINATORS or path.endswith('::then') or path.endswith('::reverse'):
            oks = []
            for a in args:
                a = strip(a)
                if isinstance(a, tuple) and a[0] in ('call',):
                    oks.append(ordering_expr_ok(a, a1, a2, kind))
                elif isinstance(a, tuple) and a[0] == 'agg':
                    # closure given to then_with: accept (its body is a comparator of captured values; checked separately if it is a sort closure)
                    oks.append((True, 'closure'))
            if oks and all(o for o, _ in oks):
                return True, '%s(%s)' % (path.split('::')[-1], ', '.join(w for _, w in oks))
            return False, 'combinator %s over non key-based parts' % path
        # delegation to another comparator function (e.g. PartialOrd -> Ord)
        if path.endswith('::cmp') or path.endswith('::partial_cmp') or path.endswith('::total_cmp'):
            x, y = norm_place(strip(args[0])), norm_place(strip(args[1]))
            if kind == 'bsearch':
                return True, '%s(..)' % path.split('::')[-1]
            mx, my = mirror(x, a1, a2), mirror(y, a1, a2)
            if mx == my:
                return True, 'delegates to %s on key %s' % (path, show(mx))
        return False, 'returns result of %s' % path
    if e[0] == 'agg' and 'Ordering' in e[1]:
        return False, 'constant %s' % e[1].split('::')[-1]
    if e[0] == 'const' or e[0] == 'str':
        return False, 'constant ordering'
    if e[0] == 'place':
        return False, 'value of %s' % show(e)
    return False, 'unrecognised %s' % show(e)[:60]


def check(F, rule, where=None, floor=0, floor_bsearch=0):
    comps = find_comparators(F, where)
    n2 = 0
    n1 = 0
    for kind, body, (user, callee, loc) in comps:
        rule.fn(body.path)
        rule.sites += 1
        ok, detail = classify(body, kind)
        if kind == 'bsearch':
            n1 += 1
        else:
            n2 += 1
        if ok:
            rule.ok(sample={'comparator': body.path, 'used_by': callee, 'verdict': detail})
        else:
            key_fn = user.closure_of or user.path
            rule.violation(('not-key-based', key_fn, callee.split('::')[-1]),
                           'comparator %s (used by %s in %s) is not key-based: %s — not necessarily a total order' % (body.path, callee, user.path, detail),
                           where=body.loc(None))
    rule.floor('two-argument comparators', n2, floor)
    rule.floor('binary_search_by closures', n1, floor_bsearch)
    return comps


def getter_fields(F, path):
    """trivial accessor `fn key(&self) -> T { self.a.b }`: the field projections [(owner type, name, index), ..] of the place
    it returns (single straight-line block, the return place is a copy of a place rooted at the receiver), else None"""
    H = F.get(path) if path else None
    if H is None or H.kind == 'closure' or H.arg_count != 1:
        return None
    blocks = [b for b in H.blocks if not b.cleanup]
    if len(blocks) != 1 or blocks[0].term.k != 'return':
        return None
    from facts import Operand
    from cfg import CFG
    cfg = CFG(H)
    ret = [s for s in blocks[0].stmts if s.k == 'assign' and s.place.is_local and s.place.l == 0 and not s.place.p]
    if len(ret) != 1 or ret[0].rv['k'] != 'use':
        return None
    o = Operand(ret[0].rv['o'])
    pl = cfg.origin_of_operand(o) if o.place is not None else None
    if pl is None or pl.l != 1:
        return None
    if any(e['k'] not in ('deref', 'f') for e in pl.p):
        return None
    fl = [(e.get('o'), e['n'], e['i']) for e in pl.p if e['k'] == 'f']
    return fl or None
