#!/bin/bash
# reseed.sh : re-run every stored seeded change against the check of its property; prints caught / MISSED / does-not-apply
export ADLT_VERIF_EVIDENCE_DIR=/tmp/adlt-verif-scratch-evidence
cd /repo || exit 2
if ! git diff --quiet; then echo "ERROR: /repo has uncommitted changes"; exit 2; fi
for d in /verif/seeded/*/; do
  n=$(basename $d); c=${n%%-*}
  if ! git apply --check $d/patch.diff 2>/dev/null; then
     if git apply --3way --check $d/patch.diff 2>/dev/null; then git apply --3way $d/patch.diff 2>/dev/null; git reset -q; else echo "$n: DOES-NOT-APPLY"; continue; fi
  else git apply $d/patch.diff; fi
  out=$(cd /verif && ./check $c 2>&1); rc=$?
  keys=$(echo "$out" | grep -o "key=[^ ]*" | cut -c1-90 | tr '\n' ' ')
  if [ $rc -eq 1 ]; then echo "$n: caught $keys"; else echo "$n: MISSED rc=$rc"; fi
  git checkout -- . 
done
