#!/usr/bin/env python3
"""mkprompts.py <round tag> <Cxx>... : write /tmp/seedwork/prompt<tag>-Cxx.txt for independent seeding agents.
The prompt contains only the text of the property (from properties.jsonl), the worktree path and what earlier seeds
already touched (so that new seeds go elsewhere).  Nothing about /verif's rules is disclosed."""
import json, sys, glob, os
tag = sys.argv[1]
props = {}
for l in open('/verif/properties.jsonl'):
    p = json.loads(l)
    props[p['id']] = p
tmpl = open('/verif/engine/prompt-template.txt').read()
head_end = tmpl.index('ID: C01')
task_start = tmpl.index('YOUR TASK:')
os.makedirs('/tmp/seedwork', exist_ok=True)
for c in sys.argv[2:]:
    p = props[c]
    wt = '/tmp/seed%s-%s' % (tag, c)
    taken = []
    for d in sorted(glob.glob('/verif/seeded/%s-*' % c)):
        m = json.load(open(d + '/meta.json'))
        name = os.path.basename(d)[len(c) + 1:].replace('-', ' ')
        taken.append('%s (%s...)' % (name, (m.get('summary') or '')[:110].replace('\n', ' ')))
    body = ('ID: %s\nTITLE: %s\nSTATEMENT: %s\nQUANTIFIED OVER: %s\nWHY THE EXISTING TESTS CANNOT SETTLE IT: %s\nCODE ANCHORS: %s\n\n' %
            (c, p['title'], p['statement'], p['quantifier'], p['why_tests_cant'], json.dumps(p['anchors'])))
    body += ('ALREADY TAKEN by others (choose a clearly DIFFERENT part of the property / a different function / a different kind of mistake than ALL of these; '
             'prefer a clause of the STATEMENT or a code path that none of them touches, and prefer subtle value-level or ordering mistakes over removing a whole check): '
             + ' ;; '.join(taken) + '\n\n')
    txt = tmpl[:head_end].replace('/tmp/seed5-C01', wt) + body + tmpl[task_start:].replace('/tmp/seed5-C01', wt).replace('"C01"', '"%s"' % c)
    open('/tmp/seedwork/prompt%s-%s.txt' % (tag, c), 'w').write(txt)
    print('wrote', c, len(taken), 'taken')
